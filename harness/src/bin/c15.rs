//! C15 CNF-side utilities: Cnf::new / eval / is_sat_partial / condition / wmc / AssignmentIter,
//! Literal bit packing, PartialModel, CnfHasher (push / pop / decide / hash).
//! case:  <clauses> ; <op> ; <op> ; ...
//!   clauses: (C <lit>*)*      raw clauses handed to Cnf::new; <lit> = p<k> | n<k>
//!   ops:     st <name> | new | eval <bits> | sat <tfu> | cond <lit> | wmc (<lo>:<hi> | U)* | iter <n>
//!            | lit <u64> <T|F> | pm <subop>* | h <subop>*
//!   pm subops: new:<n> fa:<tfu> ft:<bits> fl:<n>:<lit>.<lit>... s:<v>:<T|F> u:<v> g:<v> li:<lit>
//!              ln:<lit> is:<v> it df:<tfu> dump
//!   h subops:  push pop d:<lit> q:<tfu>
//! out:   one result per op joined by " ; " (see the print functions below); a panic of the
//!        implementation inside one op / subop is caught there and printed as PANIC.
use rsdd::repr::{AssignmentIter, Cnf, CnfHasher, Literal, PartialModel, VarLabel, WmcParams};
use rsdd::util::semirings::FiniteField;
use rsdd_verif_harness::*;
use std::collections::{BTreeMap, BTreeSet};
use std::panic::{catch_unwind, AssertUnwindSafe};

pub const PROP: Prop = Prop { gen, run, panic_ok: never };

fn main() {
    run_main(PROP)
}

const P: u128 = 2305843009213693951; // 2^61 - 1
type Lit = (u64, bool);
type Tagged = Vec<(usize, Vec<Lit>)>;

// ------------------------------------------------------------------------------------------
// text helpers
fn tb(b: bool) -> &'static str {
    if b {
        "T"
    } else {
        "F"
    }
}
fn plit(s: &str) -> Lit {
    (s[1..].parse().unwrap(), s.as_bytes()[0] == b'p')
}
fn slit(l: &Lit) -> String {
    format!("{}{}", if l.1 { "p" } else { "n" }, l.0)
}
fn rlit(l: Lit) -> Literal {
    Literal::new(VarLabel::new(l.0), l.1)
}
fn vlit(l: &Literal) -> Lit {
    (l.label().value(), l.polarity())
}
fn parse_bits(s: &str) -> Vec<bool> {
    if s == "-" {
        vec![]
    } else {
        s.bytes().map(|c| c == b'1').collect()
    }
}
fn parse_tfu(s: &str) -> Vec<Option<bool>> {
    if s == "-" {
        vec![]
    } else {
        s.bytes().map(|c| match c {
            b'T' => Some(true),
            b'F' => Some(false),
            _ => None,
        }).collect()
    }
}
fn show_bits_arg(v: &[bool]) -> String {
    if v.is_empty() {
        "-".into()
    } else {
        v.iter().map(|&b| if b { '1' } else { '0' }).collect()
    }
}
fn show_tfu(v: &[Option<bool>]) -> String {
    if v.is_empty() {
        "-".into()
    } else {
        v.iter().map(|x| match x {
            Some(true) => 'T',
            Some(false) => 'F',
            None => 'U',
        }).collect()
    }
}
fn show_lits(v: &[Lit]) -> String {
    format!("{{{}}}", v.iter().map(slit).collect::<Vec<_>>().join("."))
}
fn show_cnf(tag: &str, nv: usize, cls: &[Vec<Lit>]) -> String {
    let body: String = cls.iter().map(|c| format!("({})", c.iter().map(slit).collect::<Vec<_>>().join(","))).collect();
    format!("{tag} nv={nv} cls=[{body}]")
}
fn formula_str(cls: &[Vec<Lit>]) -> String {
    let mut s = String::new();
    for c in cls {
        if !s.is_empty() {
            s.push(' ');
        }
        s.push('C');
        for l in c {
            s.push(' ');
            s.push_str(&slit(l));
        }
    }
    s
}
fn split_segs<'a>(t: &[&'a str]) -> Vec<Vec<&'a str>> {
    let mut segs: Vec<Vec<&'a str>> = vec![vec![]];
    for &x in t {
        if x == ";" {
            segs.push(vec![])
        } else {
            segs.last_mut().unwrap().push(x)
        }
    }
    segs
}
fn parse_clauses(t: &[&str]) -> Vec<Vec<Lit>> {
    let mut cls: Vec<Vec<Lit>> = vec![];
    for &x in t {
        if x == "C" {
            cls.push(vec![])
        } else {
            cls.last_mut().expect("literal before the first C").push(plit(x))
        }
    }
    cls
}

// ------------------------------------------------------------------------------------------
// the oracle's own tiny CNF library (never calls a Cnf method)
fn own_norm(c: &[Lit]) -> Vec<Lit> {
    // stable insertion sort by label, then drop every element equal to its predecessor
    let mut s: Vec<Lit> = Vec::new();
    for &l in c {
        let mut pos = s.len();
        while pos > 0 && s[pos - 1].0 > l.0 {
            pos -= 1;
        }
        s.insert(pos, l);
    }
    let mut d: Vec<Lit> = Vec::new();
    for l in s {
        if d.last() != Some(&l) {
            d.push(l);
        }
    }
    d
}
fn own_nv(cls: &[Vec<Lit>]) -> usize {
    cls.iter().flatten().map(|l| l.0 as usize + 1).max().unwrap_or(0)
}
fn own_eval(cls: &[Vec<Lit>], a: &[bool]) -> bool {
    cls.iter().all(|c| c.iter().any(|l| a.get(l.0 as usize) == Some(&l.1)))
}
fn mget(m: &[Option<bool>], v: u64) -> Option<bool> {
    m.get(v as usize).copied().flatten()
}
fn own_sat(cls: &[Vec<Lit>], m: &[Option<bool>]) -> bool {
    cls.iter().all(|c| c.iter().any(|l| mget(m, l.0) == Some(l.1)))
}
fn bits_of(a: usize, n: usize) -> Vec<bool> {
    (0..n).map(|i| (a >> i) & 1 == 1).collect()
}
/// residual of the live non-unit clauses under the model, tagged with the clause index
fn tagged_residual(norm: &[Vec<Lit>], live: &BTreeSet<Lit>, m: &[Option<bool>]) -> Tagged {
    let mut out = vec![];
    for (i, c) in norm.iter().enumerate() {
        if c.len() <= 1 || c.iter().any(|l| live.contains(l)) {
            continue;
        }
        if c.iter().any(|l| mget(m, l.0) == Some(l.1)) {
            continue;
        }
        out.push((i, c.iter().filter(|l| mget(m, l.0).is_none()).cloned().collect()));
    }
    out
}
fn untagged(t: &Tagged) -> Vec<Vec<Lit>> {
    let mut v: Vec<Vec<Lit>> = t.iter().map(|x| x.1.clone()).collect();
    v.sort();
    v
}
/// is the product of the first k primes < 2^128 (exactly)?
fn prime_product_fits(k: usize) -> bool {
    let mut prod: u128 = 1;
    let mut cand: u128 = 2;
    let mut found = 0;
    while found < k {
        if (2..cand).take_while(|d| d * d <= cand).all(|d| cand % d != 0) {
            match prod.checked_mul(cand) {
                Some(p) => prod = p,
                None => return false,
            }
            found += 1;
        }
        cand += 1;
    }
    true
}
fn cnf_clauses(c: &Cnf) -> Vec<Vec<Lit>> {
    c.clauses().iter().map(|cl| cl.iter().map(vlit).collect()).collect()
}

// ------------------------------------------------------------------------------------------
// generator
fn rand_tfu(rng: &mut Rng, len: usize) -> Vec<Option<bool>> {
    (0..len).map(|_| match rng.below(3) {
        0 => Some(true),
        1 => Some(false),
        _ => None,
    }).collect()
}
fn rand_bits(rng: &mut Rng, len: usize) -> Vec<bool> {
    (0..len).map(|_| rng.coin()).collect()
}
fn rand_clause(rng: &mut Rng, nvars: usize, len: usize) -> Vec<Lit> {
    (0..len).map(|_| (rng.below(nvars as u64), rng.coin())).collect()
}
fn rand_lit_str(rng: &mut Rng, nvars: usize) -> String {
    slit(&(rng.below(nvars.max(1) as u64), rng.coin()))
}
const BIG_W: [&str; 6] = ["2305843009213693950", "2305843009213693951", "2305843009213693952", "18446744073709551615", "4611686018427387904", "1000000007"];
fn rand_weight(rng: &mut Rng, big: bool) -> String {
    let one = |rng: &mut Rng| -> String {
        if big && rng.chance(1, 3) {
            rng.pick(&BIG_W).to_string()
        } else {
            format!("{}", rng.below(6))
        }
    };
    let lo = one(rng);
    let hi = one(rng);
    format!("{lo}:{hi}")
}
fn gen_wmc(rng: &mut Rng, nv: usize, big: bool) -> String {
    let mut s = "wmc".to_string();
    for _ in 0..nv {
        s.push(' ');
        s.push_str(&rand_weight(rng, big));
    }
    s
}
const LIT_LABELS: [&str; 9] = ["0", "1", "9223372036854775807", "9223372036854775808", "9223372036854775813", "18446744073709551615", "9223372036854775806", "13835058055282163712", "4611686018427387904"];
fn gen_lit_op(rng: &mut Rng, special: bool) -> String {
    let lab = if special || rng.chance(1, 3) {
        rng.pick(&LIT_LABELS).to_string()
    } else if rng.coin() {
        format!("{}", rng.next())
    } else {
        format!("{}", rng.below(100))
    };
    format!("lit {lab} {}", tb(rng.coin()))
}
fn pm_var(rng: &mut Rng) -> usize {
    if rng.chance(1, 6) {
        *rng.pick(&[31usize, 32, 33, 63, 64, 65])
    } else {
        rng.range(0, 5)
    }
}
fn gen_pm(rng: &mut Rng, nsub: usize) -> String {
    let mut s = "pm".to_string();
    for _ in 0..nsub {
        let v = pm_var(rng);
        let sub = match rng.below(16) {
            0 => format!("new:{}", rng.range(0, 8)),
            1 | 2 => {
                let len = rng.range(0, 7);
                format!("fa:{}", show_tfu(&rand_tfu(rng, len)))
            }
            3 => {
                let len = rng.range(0, 6);
                format!("ft:{}", show_bits_arg(&rand_bits(rng, len)))
            }
            4 | 5 => {
                let n = rng.range(0, 7);
                let k = rng.range(0, 4);
                let mut lits = vec![];
                for _ in 0..k {
                    let lab = if n == 0 || rng.chance(1, 8) { n + rng.range(0, 2) } else { rng.range(0, n - 1) };
                    lits.push(slit(&(lab as u64, rng.coin())));
                }
                format!("fl:{n}:{}", lits.join("."))
            }
            6 | 7 => format!("s:{v}:{}", tb(rng.coin())),
            8 => format!("u:{v}"),
            9 => format!("g:{v}"),
            10 => format!("li:{}", slit(&(v as u64, rng.coin()))),
            11 => format!("ln:{}", slit(&(v as u64, rng.coin()))),
            12 => format!("is:{v}"),
            13 => "it".to_string(),
            14 => {
                let len = rng.range(0, 7);
                format!("df:{}", show_tfu(&rand_tfu(rng, len)))
            }
            _ => "dump".to_string(),
        };
        s.push(' ');
        s.push_str(&sub);
    }
    s
}
const PM_EDGE: [&str; 10] = [
    "pm fl:3:p0.n0.p0 dump it fl:3:n2.p2.n2.p1 dump",
    "pm fl:2:p0.n2 dump fa:TF fl:1:p1 dump it",
    "pm fl:0: dump fl:0:p0 dump fl:1:n0 dump fl:1:n1 dump",
    "pm s:3:T s:3:F g:3 dump u:3 g:3 is:3 u:3 dump",
    "pm new:0 g:0 li:p0 ln:p0 is:0 it dump df:-",
    "pm fa:TFU df:TFU df:FTU df:- df:UUUT it df:TF",
    "pm s:31:T s:32:F s:33:T s:64:F it dump g:32 u:32 g:32 df:- is:64 li:n64 ln:n64",
    "pm ft:- dump ft:10 li:p0 li:n0 ln:p0 ln:n0 li:p1 ln:p1 li:p2 ln:p2",
    "pm new:4 s:1:T s:1:T s:2:F it df:UTF df:UFT df:UTU fa:- it",
    "pm fa:UUUUUT it fl:6:n5.p5.p0 it u:0 u:5 u:5 it dump",
];

/// one hasher history; the generator mirrors the live decided literals to build queries
fn gen_h(rng: &mut Rng, norm: &[Vec<Lit>], nv: usize, nsub: usize) -> String {
    let mut stack: Vec<BTreeSet<Lit>> = vec![BTreeSet::new()];
    let mut out: Vec<String> = vec![];
    let mut nq = 0;
    let model_for = |rng: &mut Rng, top: &BTreeSet<Lit>| -> Vec<Option<bool>> {
        let len = if rng.chance(1, 8) { nv + rng.range(0, 2) } else { nv };
        let mut m: Vec<Option<bool>> = vec![None; len];
        let drop_one = rng.chance(1, 10);
        for (k, l) in top.iter().enumerate() {
            if drop_one && k == 0 {
                continue;
            }
            if (l.0 as usize) < len {
                m[l.0 as usize] = Some(l.1);
            }
        }
        let extra = *rng.pick(&[0u64, 0, 1, 1, 2, 3]); // probability extra/6 of assigning each further variable
        for v in 0..len {
            if m[v].is_none() && rng.below(6) < extra {
                m[v] = Some(rng.coin());
            }
        }
        m
    };
    while out.len() < nsub {
        let top = stack.last().unwrap().clone();
        let undecided: Vec<u64> = (0..nv as u64).filter(|v| !top.contains(&(*v, true)) && !top.contains(&(*v, false))).collect();
        match rng.below(12) {
            0 | 1 if stack.len() < 4 => {
                stack.push(top);
                out.push("push".into());
            }
            2 if stack.len() > 1 => {
                stack.pop();
                out.push("pop".into());
            }
            3 | 4 | 5 if nv > 0 => {
                let l: Lit = if !top.is_empty() && rng.chance(1, 8) {
                    // the same literal again, or the other polarity of a decided variable
                    let k = rng.below(top.len() as u64) as usize;
                    let l = *top.iter().nth(k).unwrap();
                    if rng.coin() {
                        l
                    } else {
                        (l.0, !l.1)
                    }
                } else if !undecided.is_empty() {
                    (*rng.pick(&undecided), rng.coin())
                } else {
                    (rng.below(nv as u64), rng.coin())
                };
                stack.last_mut().unwrap().insert(l);
                out.push(format!("d:{}", slit(&l)));
            }
            7 if stack.len() < 4 && undecided.len() >= 2 => {
                // backtrack-and-branch: push, decide a, pop, decide b at the outer level, push again
                // (the frame of the abandoned branch must not leak into the new one)
                let a: Lit = (*rng.pick(&undecided), rng.coin());
                let rest: Vec<u64> = undecided.iter().cloned().filter(|v| *v != a.0).collect();
                let b: Lit = (*rng.pick(&rest), rng.coin());
                out.push("push".into());
                out.push(format!("d:{}", slit(&a)));
                out.push("pop".into());
                out.push(format!("d:{}", slit(&b)));
                stack.last_mut().unwrap().insert(b);
                let top2 = stack.last().unwrap().clone();
                stack.push(top2.clone());
                out.push("push".into());
                let m = model_for(rng, &top2);
                out.push(format!("q:{}", show_tfu(&m)));
                nq += 1;
            }
            6 if !undecided.is_empty() => {
                // model-assigned versus decided: q(m+l) d:l q(m) q(m+l) have the same residual
                let l: Lit = (*rng.pick(&undecided), rng.coin());
                let mut m = model_for(rng, &top);
                if (l.0 as usize) < m.len() {
                    let mut ml = m.clone();
                    m[l.0 as usize] = None;
                    ml[l.0 as usize] = Some(l.1);
                    out.push(format!("q:{}", show_tfu(&ml)));
                    out.push(format!("d:{}", slit(&l)));
                    out.push(format!("q:{}", show_tfu(&m)));
                    out.push(format!("q:{}", show_tfu(&ml)));
                    stack.last_mut().unwrap().insert(l);
                    nq += 3;
                }
            }
            _ => {
                let m = model_for(rng, &top);
                out.push(format!("q:{}", show_tfu(&m)));
                nq += 1;
                if !m.is_empty() && rng.chance(1, 2) {
                    // a different model with the same tagged residual (or, failing that, a near miss)
                    let base = tagged_residual(norm, &top, &m);
                    let mut last = m.clone();
                    let mut found = false;
                    for _ in 0..10 {
                        let mut m2 = m.clone();
                        let v = rng.below(m2.len() as u64) as usize;
                        let cur = m2[v];
                        let mut nw = cur;
                        while nw == cur {
                            nw = *rng.pick(&[None, Some(true), Some(false)]);
                        }
                        m2[v] = nw;
                        last = m2.clone();
                        if tagged_residual(norm, &top, &m2) == base {
                            found = true;
                            break;
                        }
                    }
                    if found || rng.coin() {
                        out.push(format!("q:{}", show_tfu(&last)));
                        nq += 1;
                    }
                }
            }
        }
    }
    while nq < 2 {
        let top = stack.last().unwrap().clone();
        let m = model_for(rng, &top);
        out.push(format!("q:{}", show_tfu(&m)));
        nq += 1;
    }
    format!("h {}", out.join(" "))
}

fn gen_structured(rng: &mut Rng, frac: usize, maxv: usize) -> String {
    let vmax = (2 + (frac * (maxv - 2)) / 60).clamp(2, maxv);
    let big = frac >= 10 && rng.chance(11, 20);
    let mut nvars = if rng.chance(2, 3) { rng.range((vmax + 1) / 2, vmax) } else { rng.range(1, vmax) };
    if big {
        nvars = nvars.max(4);
    }
    let ncl = if big { rng.range(9, 14) } else { rng.range(1, (2 + (frac * 6) / 60).min(8)) };
    let mut raw: Vec<Vec<Lit>> = vec![];
    for _ in 0..ncl {
        let len = if big { rng.range(3, 4) } else { rng.range(1, 4) };
        raw.push(rand_clause(rng, nvars, len));
    }
    let norm: Vec<Vec<Lit>> = raw.iter().map(|c| own_norm(c)).collect();
    let nv = own_nv(&raw);
    let nops = rng.range(3, 3 + (frac * 7) / 100);
    let mut ops: Vec<String> = vec![format!("st {}", if big { "s:big" } else { "s" }), "new".into()];
    let mut has_h = false;
    for _ in 0..nops {
        let op = match rng.below(17) {
            0 | 1 | 2 => {
                let len = if rng.chance(1, 20) && nv > 0 { nv - 1 } else if rng.chance(1, 6) { nv + rng.range(1, 3) } else { nv };
                format!("eval {}", show_bits_arg(&rand_bits(rng, len)))
            }
            3 | 4 | 5 => {
                let len = if rng.chance(1, 4) { rng.range(0, nv + 2) } else { nv };
                let mut m = rand_tfu(rng, len);
                if rng.coin() {
                    // bias towards satisfying models: mostly assigned
                    for x in m.iter_mut() {
                        if x.is_none() && rng.chance(2, 3) {
                            *x = Some(rng.coin());
                        }
                    }
                }
                format!("sat {}", show_tfu(&m))
            }
            6 | 7 => {
                let v = if rng.chance(1, 8) { nv } else { rng.below(nv.max(1) as u64) as usize };
                format!("cond {}", slit(&(v as u64, rng.coin())))
            }
            8 | 9 => {
                let k = if rng.chance(1, 20) && nv > 0 { nv - 1 } else if rng.chance(1, 8) { nv + 1 } else { nv };
                let bigw = rng.chance(1, 3);
                gen_wmc(rng, k, bigw)
            }
            10 => format!("iter {}", rng.range(0, vmax)),
            11 => gen_lit_op(rng, false),
            12 | 13 => {
                let k = rng.range(3, 3 + (frac * 9) / 100);
                gen_pm(rng, k)
            }
            _ => {
                has_h = true;
                let k = rng.range(5, 5 + (frac * 20) / 100);
                gen_h(rng, &norm, nv, k)
            }
        };
        ops.push(op);
    }
    if !has_h && rng.chance(7, 10) {
        let k = rng.range(5, 5 + (frac * 20) / 100);
        let h = gen_h(rng, &norm, nv, k);
        let k = ops.len() - 1;
        ops[k] = h;
    }
    format!("{} ; {}", formula_str(&raw), ops.join(" ; "))
}

fn edge_formula(rng: &mut Rng, maxv: usize) -> (&'static str, Vec<Vec<Lit>>) {
    let p = |k: u64| (k, true);
    let n = |k: u64| (k, false);
    match rng.below(8) {
        0 => ("e:empty", vec![]),
        1 => {
            let mut cls: Vec<Vec<Lit>> = (0..rng.range(0, 3)).map(|_| { let len = rng.range(1, 3); rand_clause(rng, 3, len) }).collect();
            let pos = rng.range(0, cls.len());
            cls.insert(pos, vec![]);
            if rng.chance(1, 4) {
                cls.push(vec![]);
            }
            ("e:emptyclause", cls)
        }
        2 => {
            let nvars = rng.range(1, 4);
            ("e:units", (0..rng.range(1, 5)).map(|_| rand_clause(rng, nvars, 1)).collect())
        }
        3 => {
            let pats: Vec<Vec<Lit>> = vec![
                vec![p(1), n(1), p(1)], vec![p(0), p(0)], vec![p(2), p(0), p(2), p(0)], vec![n(1), n(1), n(1)],
                vec![p(1), n(1), p(1), n(1)], vec![p(0), p(1), p(0)], vec![n(2), p(2), p(2), n(2), p(0)], vec![p(3), n(0), p(3), p(3)],
            ];
            let mut cls: Vec<Vec<Lit>> = (0..rng.range(1, 3)).map(|_| rng.pick(&pats).clone()).collect();
            if rng.coin() {
                let len = rng.range(1, 3);
                cls.push(rand_clause(rng, 3, len));
            }
            ("e:duplits", cls)
        }
        4 => {
            let pats: Vec<Vec<Lit>> = vec![vec![p(0), n(0)], vec![p(1), n(1), p(2)], vec![n(2), p(0), p(2)], vec![n(0), p(0), n(1), p(1)], vec![p(1), n(1)]];
            let mut cls: Vec<Vec<Lit>> = (0..rng.range(1, 3)).map(|_| rng.pick(&pats).clone()).collect();
            if rng.coin() {
                let len = rng.range(1, 3);
                cls.push(rand_clause(rng, 3, len));
            }
            ("e:complementary", cls)
        }
        5 => {
            let hi = (maxv - 1) as u64;
            let lo = rng.below(hi.max(1));
            let labs = [lo, hi];
            let cls: Vec<Vec<Lit>> = (0..rng.range(1, 3)).map(|_| (0..rng.range(1, 3)).map(|_| (*rng.pick(&labs), rng.coin())).collect()).collect();
            ("e:gaps", cls)
        }
        6 => {
            let nvars = rng.range(1, 4);
            ("e:small", (0..rng.range(1, 4)).map(|_| { let len = rng.range(1, 3); rand_clause(rng, nvars, len) }).collect())
        }
        _ => ("e:mixed", vec![vec![p(4)], vec![p(1), n(1), p(1)], vec![], vec![n(4), p(0), p(0)], vec![n(1), p(4)]]),
    }
}

fn gen_edge_h(rng: &mut Rng, norm: &[Vec<Lit>], nv: usize) -> String {
    let occ: Vec<Lit> = norm.iter().flatten().cloned().collect();
    let l = if occ.is_empty() { (0, true) } else { *rng.pick(&occ) };
    let (ls, lns) = (slit(&l), slit(&(l.0, !l.1)));
    let full = |rng: &mut Rng| show_tfu(&rand_tfu(rng, nv));
    match rng.below(7) {
        0 => format!("h q:- d:p{nv} q:- d:n{} q:- d:{ls} q:- d:p{}", nv + 3, nv + 1),
        1 => format!("h pop q:- push d:{ls} d:p{nv} pop q:{} push q:-", full(rng)),
        2 => format!("h q:- d:{ls} q:- d:{ls} q:- d:{lns} q:- q:{} q:{}", full(rng), full(rng)),
        3 => format!("h push pop pop pop push q:- d:{ls} d:{lns}"),
        4 => {
            let (a, b) = (show_tfu(&rand_tfu(rng, nv + 2)), show_tfu(&rand_tfu(rng, nv + 1)));
            format!("h q:{a} q:{b} q:- push d:{lns} q:{} pop q:-", full(rng))
        }
        5 => format!("h push d:{ls} push d:{lns} q:- pop q:- pop q:- pop q:- d:{ls}"),
        _ => {
            let k = rng.range(5, 12);
            gen_h(rng, norm, nv, k)
        }
    }
}

fn gen_edge(rng: &mut Rng, frac: usize, maxv: usize) -> String {
    let (name, raw) = edge_formula(rng, maxv);
    let norm: Vec<Vec<Lit>> = raw.iter().map(|c| own_norm(c)).collect();
    let nv = own_nv(&raw);
    let nops = rng.range(3, 5 + (frac * 5) / 100);
    let mut ops: Vec<String> = vec![format!("st {name}"), "new".into()];
    let occ: Vec<Lit> = norm.iter().flatten().cloned().collect();
    for _ in 0..nops {
        let op = match rng.below(26) {
            0 => format!("eval {}", show_bits_arg(&rand_bits(rng, nv.saturating_sub(1)))), // too short (unless nv = 0)
            1 => "eval -".to_string(),
            2 => format!("eval {}", show_bits_arg(&rand_bits(rng, nv))),
            3 => {
                let k = nv + rng.range(1, 3);
                format!("eval {}", show_bits_arg(&rand_bits(rng, k)))
            }
            4 => "sat -".to_string(),
            5 => {
                let k = nv + rng.range(0, 3);
                format!("sat {}", show_tfu(&rand_tfu(rng, k)))
            }
            6 => format!("sat {}", show_tfu(&vec![None; nv])),
            7 => format!("sat {}", show_tfu(&rand_bits(rng, nv).into_iter().map(Some).collect::<Vec<_>>())),
            // a variable that does not occur (beyond num_vars, or a gap label)
            8 => {
                let free: Vec<u64> = (0..nv as u64 + 2).filter(|v| !occ.iter().any(|l| l.0 == *v)).collect();
                format!("cond {}", slit(&(*rng.pick(&free), rng.coin())))
            }
            // the highest variable: num_vars shrinks
            9 => format!("cond {}", slit(&(nv.saturating_sub(1) as u64, rng.coin()))),
            // the complement of a literal of a shortest clause: likely makes a clause empty
            10 => {
                let short = norm.iter().filter(|c| !c.is_empty()).min_by_key(|c| c.len());
                match short {
                    Some(c) => {
                        let l = *rng.pick(c);
                        format!("cond {}", slit(&(l.0, !l.1)))
                    }
                    None => "cond n0".to_string(),
                }
            }
            11 => format!("cond {}", rand_lit_str(rng, nv)),
            12 => gen_wmc(rng, nv.saturating_sub(1), false), // one weight missing (unless nv = 0)
            13 => {
                // a U entry somewhere
                let mut w: Vec<String> = (0..nv + rng.range(0, 1)).map(|_| rand_weight(rng, false)).collect();
                if !w.is_empty() {
                    let k = rng.below(w.len() as u64) as usize;
                    w[k] = "U".into();
                }
                format!("wmc {}", w.join(" ")).trim().to_string()
            }
            14 => {
                // zero weights
                let w: Vec<&str> = (0..nv).map(|_| *rng.pick(&["0:0", "0:1", "1:0", "1:1", "0:3"])).collect();
                format!("wmc {}", w.join(" ")).trim().to_string()
            }
            15 => {
                // huge weights, possibly surplus entries
                let k = nv + rng.range(0, 2);
                gen_wmc(rng, k, true)
            }
            16 => gen_wmc(rng, nv, false),
            17 => format!("iter {}", rng.range(0, 2)),
            18 | 19 => gen_lit_op(rng, true),
            20 | 21 => rng.pick(&PM_EDGE).to_string(),
            22 => {
                let k = rng.range(3, 8);
                gen_pm(rng, k)
            }
            _ => gen_edge_h(rng, &norm, nv),
        };
        ops.push(op);
    }
    format!("{} ; {}", formula_str(&raw), ops.join(" ; ")).trim().to_string()
}

pub fn gen(rng: &mut Rng, idx: usize, n: usize, thorough: bool) -> String {
    let frac = (idx * 100) / n.max(1);
    let maxv = if thorough { 8 } else { 6 };
    if rng.chance(1, 4) {
        gen_edge(rng, frac, maxv)
    } else {
        gen_structured(rng, frac, maxv)
    }
}

// ------------------------------------------------------------------------------------------
// running one case
struct QRec {
    hash: u128,
    tagged: Tagged,
    has_empty: bool,
}
struct Ctx<'a> {
    cnf: &'a Cnf,
    raw: &'a [Vec<Lit>],
    norm: &'a [Vec<Lit>],
    nv: usize,
}

fn op_new(cx: &Ctx, fails: &mut Vec<String>) -> String {
    let cls = cnf_clauses(cx.cnf);
    let inv = cx.cnf.num_vars();
    if cls.len() != cx.raw.len() {
        fails.push(format!("new: {} clauses in, {} out", cx.raw.len(), cls.len()));
    } else {
        for (i, c) in cls.iter().enumerate() {
            let a: BTreeSet<Lit> = c.iter().cloned().collect();
            let b: BTreeSet<Lit> = cx.raw[i].iter().cloned().collect();
            if a != b {
                fails.push(format!("new: clause {i} changed its literal set"));
            }
            if c.windows(2).any(|w| w[0].0 > w[1].0) {
                fails.push(format!("new: clause {i} not sorted by label"));
            }
            if c.windows(2).any(|w| w[0] == w[1]) {
                fails.push(format!("new: clause {i} has adjacent equal literals"));
            }
            if *c != cx.norm[i] {
                fails.push(format!("new: clause {i} is not the stable sort + dedup of the input"));
            }
        }
    }
    if inv != cx.nv {
        fails.push(format!("new: num_vars {inv}, expected {}", cx.nv));
    }
    show_cnf("new", inv, &cls)
}

fn op_eval(cx: &Ctx, arg: &str, fails: &mut Vec<String>) -> String {
    let bits = parse_bits(arg);
    match catch_unwind(AssertUnwindSafe(|| cx.cnf.eval(&bits))) {
        Err(_) => {
            if bits.len() >= cx.nv {
                fails.push(format!("eval {arg}: panic although the vector covers num_vars"));
            }
            "eval=PANIC".into()
        }
        Ok(v) => {
            if bits.len() < cx.nv {
                fails.push(format!("eval {arg}: no panic on a short vector"));
            } else if v != own_eval(cx.raw, &bits) {
                fails.push(format!("eval {arg}: {v}, brute force says {}", !v));
            }
            format!("eval={}", tb(v))
        }
    }
}

fn op_sat(cx: &Ctx, arg: &str, fails: &mut Vec<String>) -> String {
    let m = parse_tfu(arg);
    match catch_unwind(AssertUnwindSafe(|| cx.cnf.is_sat_partial(&PartialModel::from_assignments(&m)))) {
        Err(_) => {
            fails.push(format!("sat {arg}: unexpected panic"));
            "sat=PANIC".into()
        }
        Ok(v) => {
            if v != own_sat(cx.raw, &m) {
                fails.push(format!("sat {arg}: {v}, own evaluation says {}", !v));
            }
            format!("sat={}", tb(v))
        }
    }
}

fn op_cond(cx: &Ctx, arg: &str, fails: &mut Vec<String>, st: &mut Stats) -> String {
    let l = plit(arg);
    match catch_unwind(AssertUnwindSafe(|| cx.cnf.condition(rlit(l)))) {
        Err(_) => {
            fails.push(format!("cond {arg}: unexpected panic"));
            "cond=PANIC".into()
        }
        Ok(c2) => {
            let cls2 = cnf_clauses(&c2);
            let nv2 = c2.num_vars();
            let m = cx.nv.max(l.0 as usize + 1).max(1);
            if m <= 16 {
                for a in 0..(1usize << m) {
                    let bits = bits_of(a, m);
                    let mut upd = bits.clone();
                    upd[l.0 as usize] = l.1;
                    if own_eval(&cls2, &bits) != own_eval(cx.raw, &upd) {
                        fails.push(format!("cond {arg}: result differs from the formula under {} with the literal set", show_bits_arg(&bits)));
                        break;
                    }
                }
            }
            if nv2 != own_nv(&cls2) {
                fails.push(format!("cond {arg}: num_vars {nv2}, the result clauses need {}", own_nv(&cls2)));
            }
            let comp = (l.0, !l.1);
            let expected: Vec<Vec<Lit>> = cx.norm.iter().filter(|c| !c.contains(&l))
                .map(|c| own_norm(&c.iter().filter(|x| **x != comp).cloned().collect::<Vec<_>>())).collect();
            if expected != cls2 {
                fails.push(format!("cond {arg}: result is not the syntactic conditioning {}", show_cnf("", own_nv(&expected), &expected)));
            }
            if nv2 < cx.nv {
                st.bump("cond_num_vars_shrinks");
            }
            if cls2.iter().any(|c| c.is_empty()) {
                st.bump("cond_result_has_empty_clause");
            }
            if !cx.norm.iter().flatten().any(|x| x.0 == l.0) {
                st.bump("cond_on_absent_variable");
            }
            show_cnf("cond", nv2, &cls2)
        }
    }
}

fn op_wmc(cx: &Ctx, args: &[&str], fails: &mut Vec<String>, st: &mut Stats) -> String {
    let ws: Vec<Option<(u128, u128)>> = args.iter().map(|s| {
        if *s == "U" {
            None
        } else {
            let (a, b) = s.split_once(':').unwrap();
            Some((a.parse().unwrap(), b.parse().unwrap()))
        }
    }).collect();
    let r = catch_unwind(AssertUnwindSafe(|| {
        let mut params = WmcParams::<FiniteField<P>>::default();
        for (i, w) in ws.iter().enumerate() {
            if let Some((lo, hi)) = w {
                params.set_weight(VarLabel::new(i as u64), FiniteField::new(*lo), FiniteField::new(*hi));
            }
        }
        cx.cnf.wmc(&params).value()
    }));
    let missing = (0..cx.nv).any(|i| !matches!(ws.get(i), Some(Some(_))));
    match r {
        Err(_) => {
            if !missing {
                fails.push("wmc: panic although every variable below num_vars has a weight".into());
            }
            "wmc=PANIC".into()
        }
        Ok(v) => {
            if missing {
                fails.push("wmc: no panic although a weight is missing".into());
            } else if cx.nv <= 16 {
                let mut total: u128 = 0;
                for a in 0..(1usize << cx.nv) {
                    let bits = bits_of(a, cx.nv);
                    if own_eval(cx.raw, &bits) {
                        let mut prod: u128 = 1 % P;
                        for (i, &b) in bits.iter().enumerate() {
                            let (lo, hi) = ws[i].unwrap();
                            prod = (prod * ((if b { hi } else { lo }) % P)) % P;
                        }
                        total = (total + prod) % P;
                    }
                }
                if total != v {
                    fails.push(format!("wmc: {v}, brute force says {total}"));
                }
                if v == 0 {
                    st.bump("wmc_zero");
                }
            }
            format!("wmc={v}")
        }
    }
}

fn op_iter(arg: &str, fails: &mut Vec<String>) -> String {
    let n: usize = arg.parse().unwrap();
    match catch_unwind(AssertUnwindSafe(|| AssignmentIter::new(n).collect::<Vec<Vec<bool>>>())) {
        Err(_) => {
            fails.push(format!("iter {n}: unexpected panic"));
            "iter=PANIC".into()
        }
        Ok(items) => {
            if n <= 20 && items.len() != 1usize << n {
                fails.push(format!("iter {n}: {} items", items.len()));
            }
            if items.iter().any(|a| a.len() != n) {
                fails.push(format!("iter {n}: an item of the wrong length"));
            }
            let set: BTreeSet<&Vec<bool>> = items.iter().collect();
            if set.len() != items.len() {
                fails.push(format!("iter {n}: repeated item"));
            }
            let body: Vec<String> = items.iter().map(|a| if a.is_empty() { "e".to_string() } else { a.iter().map(|&b| if b { '1' } else { '0' }).collect() }).collect();
            format!("iter=[{}]", body.join(","))
        }
    }
}

fn op_lit(lab: &str, pol: &str, fails: &mut Vec<String>, st: &mut Stats) -> String {
    let label: u64 = lab.parse().unwrap();
    let pol = pol == "T";
    match catch_unwind(AssertUnwindSafe(|| {
        let l = Literal::new(VarLabel::new(label), pol);
        let nl = l.negated();
        (l.label().value(), l.polarity(), nl.label().value(), nl.polarity())
    })) {
        Err(_) => {
            fails.push(format!("lit {lab}: unexpected panic"));
            "lit=PANIC".into()
        }
        Ok((a, b, c, d)) => {
            if a != label % (1u64 << 63) || b != pol {
                fails.push(format!("lit {lab} {pol}: label {a}, polarity {b}"));
            }
            if c != a || d != !pol {
                fails.push(format!("lit {lab} {pol}: negated has label {c}, polarity {d}"));
            }
            if label >= 1u64 << 63 {
                st.bump("lit_label_truncated");
            }
            format!("lit={a},{},neg={c},{}", tb(b), tb(d))
        }
    }
}

fn ref_iter(rf: &BTreeMap<usize, bool>) -> Vec<Lit> {
    let mut v: Vec<Lit> = rf.iter().filter(|x| !*x.1).map(|x| (*x.0 as u64, false)).collect();
    v.extend(rf.iter().filter(|x| *x.1).map(|x| (*x.0 as u64, true)));
    v
}
fn ref_of_tfu(m: &[Option<bool>]) -> BTreeMap<usize, bool> {
    m.iter().enumerate().filter_map(|(i, x)| x.map(|b| (i, b))).collect()
}

/// returns (result, at least one non-PANIC subresult)
fn op_pm(subs: &[&str], fails: &mut Vec<String>, st: &mut Stats) -> (String, bool) {
    let mut pm = PartialModel::new(0);
    let mut rf: BTreeMap<usize, bool> = BTreeMap::new();
    let mut res: Vec<String> = vec![];
    for s in subs {
        let f: Vec<&str> = s.split(':').collect();
        st.bump(&format!("pm.{}", f[0]));
        let us = |k: usize| -> usize { f[k].parse().unwrap() };
        let vl = |k: usize| VarLabel::new_usize(f[k].parse().unwrap());
        let mut newpm: Option<PartialModel> = None;
        let pmr = &mut pm;
        let got: Result<String, ()> = catch_unwind(AssertUnwindSafe(|| match f[0] {
            "new" => {
                newpm = Some(PartialModel::new(us(1)));
                "ok".to_string()
            }
            "fa" => {
                newpm = Some(PartialModel::from_assignments(&parse_tfu(f[1])));
                "ok".to_string()
            }
            "ft" => {
                newpm = Some(PartialModel::from_total_model(&parse_bits(f[1])));
                "ok".to_string()
            }
            "fl" => {
                let lits: Vec<Literal> = f.get(2).unwrap_or(&"").split('.').filter(|x| !x.is_empty()).map(|x| rlit(plit(x))).collect();
                newpm = Some(PartialModel::from_litvec(&lits, us(1)));
                "ok".to_string()
            }
            "s" => {
                pmr.set(vl(1), f[2] == "T");
                "ok".to_string()
            }
            "u" => {
                pmr.unset(vl(1));
                "ok".to_string()
            }
            "g" => match pmr.get(vl(1)) {
                None => "N".to_string(),
                Some(b) => tb(b).to_string(),
            },
            "li" => tb(pmr.lit_implied(rlit(plit(f[1])))).to_string(),
            "ln" => tb(pmr.lit_neg_implied(rlit(plit(f[1])))).to_string(),
            "is" => tb(pmr.is_set(vl(1))).to_string(),
            "it" => show_lits(&pmr.assignment_iter().map(|l| vlit(&l)).collect::<Vec<_>>()),
            "df" => {
                let o = PartialModel::from_assignments(&parse_tfu(f[1]));
                let v: Vec<Lit> = pmr.difference(&o).map(|l| vlit(&l)).collect();
                show_lits(&v)
            }
            "dump" => format!(
                "T{{{}}}F{{{}}}",
                pmr.true_assignments.iter().map(|v| v.value().to_string()).collect::<Vec<_>>().join("."),
                pmr.false_assignments.iter().map(|v| v.value().to_string()).collect::<Vec<_>>().join(".")
            ),
            _ => panic!("bad pm subop"),
        })).map_err(|_| ());
        if let (Ok(_), Some(p)) = (&got, newpm) {
            pm = p;
        }
        let got = got.unwrap_or_else(|_| "PANIC".to_string());
        // reference semantics
        let exp: String = match f[0] {
            "new" => {
                rf.clear();
                "ok".into()
            }
            "fa" => {
                rf = ref_of_tfu(&parse_tfu(f[1]));
                "ok".into()
            }
            "ft" => {
                rf = parse_bits(f[1]).into_iter().enumerate().collect();
                "ok".into()
            }
            "fl" => {
                let n = us(1);
                let lits: Vec<Lit> = f.get(2).unwrap_or(&"").split('.').filter(|x| !x.is_empty()).map(plit).collect();
                // the first out-of-range label panics
                if lits.iter().any(|l| l.0 as usize >= n) {
                    "PANIC".into()
                } else {
                    let labels: BTreeSet<u64> = lits.iter().map(|l| l.0).collect();
                    if labels.len() < lits.len() {
                        st.bump("pm.fl_repeated_label");
                    }
                    rf.clear();
                    for l in lits {
                        rf.insert(l.0 as usize, l.1);
                    }
                    "ok".into()
                }
            }
            "s" => {
                rf.insert(us(1), f[2] == "T");
                "ok".into()
            }
            "u" => {
                rf.remove(&us(1));
                "ok".into()
            }
            "g" => match rf.get(&us(1)) {
                None => "N".into(),
                Some(b) => tb(*b).into(),
            },
            "li" => {
                let l = plit(f[1]);
                tb(rf.get(&(l.0 as usize)) == Some(&l.1)).into()
            }
            "ln" => {
                let l = plit(f[1]);
                tb(rf.get(&(l.0 as usize)) == Some(&!l.1)).into()
            }
            "is" => tb(rf.contains_key(&us(1))).into(),
            "it" => show_lits(&ref_iter(&rf)),
            "df" => {
                let o = ref_of_tfu(&parse_tfu(f[1]));
                let v: Vec<Lit> = ref_iter(&rf).into_iter().filter(|l| o.get(&(l.0 as usize)) != Some(&l.1)).collect();
                show_lits(&v)
            }
            "dump" => format!(
                "T{{{}}}F{{{}}}",
                rf.iter().filter(|x| *x.1).map(|x| x.0.to_string()).collect::<Vec<_>>().join("."),
                rf.iter().filter(|x| !*x.1).map(|x| x.0.to_string()).collect::<Vec<_>>().join(".")
            ),
            _ => unreachable!(),
        };
        if got != exp {
            fails.push(format!("pm {s}: {got}, reference map says {exp}"));
        }
        if got == "PANIC" {
            st.bump("panic:pm.fl");
        }
        res.push(got);
    }
    let any = res.iter().any(|r| r != "PANIC");
    (format!("pm={}", res.join(",")), any)
}

/// returns (result, at least one non-PANIC subresult)
fn op_h(cx: &Ctx, subs: &[&str], fails: &mut Vec<String>, st: &mut Stats, qrecs: &mut Vec<QRec>) -> (String, bool) {
    let mut h: CnfHasher = cx.cnf.hasher().clone();
    // independent stack of the sets of live decided literals
    let mut stack: Vec<BTreeSet<Lit>> = vec![BTreeSet::new()];
    let mut res: Vec<String> = vec![];
    let mut maxdepth = 1;
    for s in subs {
        let f: Vec<&str> = s.split(':').collect();
        st.bump(&format!("h.{}", f[0]));
        let (got, exp_panic): (String, bool) = match f[0] {
            "push" => {
                let r = catch_unwind(AssertUnwindSafe(|| h.push()));
                let e = stack.is_empty();
                if !e {
                    let t = stack.last().unwrap().clone();
                    stack.push(t);
                }
                (if r.is_ok() { "ok".into() } else { "PANIC".into() }, e)
            }
            "pop" => {
                let r = catch_unwind(AssertUnwindSafe(|| h.pop()));
                if stack.len() == 1 {
                    st.bump("h.pop_last_frame");
                }
                stack.pop();
                (if r.is_ok() { "ok".into() } else { "PANIC".into() }, false)
            }
            "d" => {
                let l = plit(f[1]);
                let r = catch_unwind(AssertUnwindSafe(|| h.decide(rlit(l))));
                let occurs = cx.norm.iter().any(|c| c.contains(&l));
                let e = (l.0 as usize) >= cx.nv || (stack.is_empty() && occurs);
                if (l.0 as usize) >= cx.nv {
                    st.bump("h.decide_out_of_range");
                }
                if !e {
                    if let Some(t) = stack.last_mut() {
                        if t.contains(&l) {
                            st.bump("h.decide_same_literal_again");
                        }
                        if t.contains(&(l.0, !l.1)) {
                            st.bump("h.decide_both_polarities");
                        }
                        t.insert(l);
                    }
                }
                (if r.is_ok() { "ok".into() } else { "PANIC".into() }, e)
            }
            "q" => {
                let m = parse_tfu(f[1]);
                let r = catch_unwind(AssertUnwindSafe(|| format!("{:?}", h.hash(&PartialModel::from_assignments(&m)))));
                let e = stack.is_empty();
                match r {
                    Err(_) => ("PANIC".into(), e),
                    Ok(dbg) => {
                        // "HashedCNF { v: [a, b] }"
                        let inner = dbg.split('[').nth(1).and_then(|x| x.split(']').next()).unwrap_or("");
                        let vals: Vec<u128> = inner.split(',').filter_map(|x| x.trim().parse().ok()).collect();
                        if vals.len() != 2 {
                            fails.push(format!("h {s}: cannot read the hash from {dbg}"));
                            ("UNREADABLE".into(), e)
                        } else {
                            if vals[0] != vals[1] {
                                fails.push(format!("h {s}: the two entries of the hash differ: {dbg}"));
                            }
                            if let Some(top) = stack.last() {
                                let tagged = tagged_residual(cx.norm, top, &m);
                                let has_empty = tagged.iter().any(|x| x.1.is_empty());
                                if has_empty {
                                    st.bump("h.query_with_falsified_live_clause");
                                }
                                if tagged.is_empty() {
                                    st.bump("h.query_with_empty_residual");
                                    if vals[0] != 1 {
                                        fails.push(format!("h {s}: hash {} of an empty residual", vals[0]));
                                    }
                                }
                                // consistent = every live decided literal is implied by the model
                                if top.iter().all(|l| mget(&m, l.0) == Some(l.1)) {
                                    st.bump("h.query_model_consistent_with_decisions");
                                }
                                qrecs.push(QRec { hash: vals[0], tagged, has_empty });
                            }
                            (vals[0].to_string(), e)
                        }
                    }
                }
            }
            _ => panic!("bad h subop"),
        };
        maxdepth = maxdepth.max(stack.len());
        if (got == "PANIC") != exp_panic {
            fails.push(format!("h {s}: {}, expected {}", got, if exp_panic { "a panic" } else { "no panic" }));
        }
        if got == "PANIC" {
            st.bump(&format!("panic:h.{}", f[0]));
        }
        res.push(got);
    }
    st.bump(&format!("h.maxdepth={maxdepth}"));
    let any = res.iter().any(|r| r != "PANIC");
    (format!("h={}", res.join(",")), any)
}

pub fn run(case: &str, st: &mut Stats) -> Outcome {
    let t = toks(case);
    let segs = split_segs(&t);
    let raw = parse_clauses(&segs[0]);
    let rl: Vec<Vec<Literal>> = raw.iter().map(|c| c.iter().map(|&l| rlit(l)).collect()).collect();
    let cnf = Cnf::new(&rl);
    let norm: Vec<Vec<Lit>> = raw.iter().map(|c| own_norm(c)).collect();
    let nv = own_nv(&raw);
    let cx = Ctx { cnf: &cnf, raw: &raw, norm: &norm, nv };
    let mut fails: Vec<String> = vec![];
    let mut results: Vec<String> = vec![];
    let mut qrecs: Vec<QRec> = vec![];
    let mut nonpanic = 0;
    let mut saw_h = false;
    for op in segs[1..].iter() {
        if op.is_empty() {
            continue;
        }
        let (r, okres) = match op[0] {
            "st" => {
                st.bump(&format!("stream={}", op[1]));
                st.bump(if op[1].starts_with("e:") { "stream_edge" } else { "stream_structured" });
                results.push(format!("st={}", op[1]));
                continue;
            }
            "new" => (op_new(&cx, &mut fails), true),
            "eval" => {
                let r = op_eval(&cx, op[1], &mut fails);
                st.bump(&format!("{r}"));
                let ok = !r.ends_with("PANIC");
                (r, ok)
            }
            "sat" => {
                let r = op_sat(&cx, op[1], &mut fails);
                st.bump(&format!("{r}"));
                let ok = !r.ends_with("PANIC");
                (r, ok)
            }
            "cond" => {
                let r = op_cond(&cx, op[1], &mut fails, st);
                let ok = !r.ends_with("PANIC");
                (r, ok)
            }
            "wmc" => {
                let r = op_wmc(&cx, &op[1..], &mut fails, st);
                let ok = !r.ends_with("PANIC");
                (r, ok)
            }
            "iter" => {
                let r = op_iter(op[1], &mut fails);
                st.bump(&format!("iter_n={}", op[1]));
                let ok = !r.ends_with("PANIC");
                (r, ok)
            }
            "lit" => {
                let r = op_lit(op[1], op[2], &mut fails, st);
                let ok = !r.ends_with("PANIC");
                (r, ok)
            }
            "pm" => op_pm(&op[1..], &mut fails, st),
            "h" => {
                saw_h = true;
                op_h(&cx, &op[1..], &mut fails, st, &mut qrecs)
            }
            _ => panic!("bad op {}", op[0]),
        };
        st.bump(&format!("op={}", op[0]));
        if r.ends_with("=PANIC") {
            st.bump(&format!("panic:{}", op[0]));
        }
        if okres {
            nonpanic += 1;
        }
        results.push(r);
    }
    // formula shape
    let nocc: usize = norm.iter().map(|c| c.len()).sum();
    if raw.is_empty() {
        st.bump("formula_empty");
    }
    if raw.iter().any(|c| c.is_empty()) {
        st.bump("formula_has_empty_clause");
    }
    if !raw.is_empty() && norm.iter().all(|c| c.len() == 1) {
        st.bump("formula_only_units");
    }
    if norm.iter().any(|c| c.iter().enumerate().any(|(i, l)| c[..i].contains(l))) {
        st.bump("formula_keeps_nonadjacent_duplicate_literal");
    }
    if (0..raw.len()).any(|i| norm[i].len() < raw[i].len()) {
        st.bump("formula_dedup_removed_a_literal");
    }
    if norm.iter().any(|c| c.iter().any(|l| c.contains(&(l.0, !l.1)))) {
        st.bump("formula_has_complementary_literals");
    }
    if (0..nv as u64).any(|v| !norm.iter().flatten().any(|l| l.0 == v)) {
        st.bump("formula_has_unused_label");
    }
    st.bump(&format!("num_vars={nv}"));
    st.bump(&format!("clauses={}", if raw.len() <= 8 { raw.len().to_string() } else { "9+".into() }));
    // hasher: pairs of successful queries
    if saw_h {
        let fits = prime_product_fits(nocc);
        st.bump(if fits { "prime_product_fits=yes" } else { "prime_product_fits=no" });
        st.add("h_queries_hashed", qrecs.len() as u64);
        for i in 0..qrecs.len() {
            for j in (i + 1)..qrecs.len() {
                let (a, b) = (&qrecs[i], &qrecs[j]);
                st.bump("h_pairs");
                let teq = a.tagged == b.tagged;
                let heq = a.hash == b.hash;
                if heq {
                    st.bump("h_pairs_hash_equal");
                    if a.hash != 1 {
                        st.bump("h_pairs_hash_equal_and_not_1");
                    }
                }
                if teq {
                    st.bump("h_pairs_tagged_residual_equal");
                    if !heq {
                        fails.push(format!("h: queries {i} and {j} have the same tagged residual but the hashes {} and {}", a.hash, b.hash));
                    }
                } else if heq {
                    if fits && !a.has_empty && !b.has_empty {
                        fails.push(format!("h: queries {i} and {j} have the hash {} but different tagged residuals (prime product fits, no falsified clause)", a.hash));
                    } else if fits {
                        st.bump("h_pairs_hash_equal_residual_differs_falsified_clause");
                    } else if a.has_empty || b.has_empty {
                        st.bump("h_pairs_hash_equal_residual_differs_falsified_clause_product_overflows");
                    } else {
                        // a genuine collision of two different residuals through the 2^128 wrap
                        st.bump("h_pairs_hash_equal_residual_differs_by_wraparound");
                        if std::env::var_os("C15_DEBUG").is_some() {
                            eprintln!("WRAP-COLLISION queries {i},{j} hash {} residuals {:?} {:?} :: {case}", a.hash, a.tagged, b.tagged);
                        }
                    }
                }
                if !heq && untagged(&a.tagged) == untagged(&b.tagged) {
                    st.bump("h_pairs_untagged_equal_hash_differs");
                    if std::env::var_os("C15_DEBUG").is_some() {
                        eprintln!("UNTAGGED-EQUAL queries {i},{j} hashes {} {} residuals {:?} {:?} :: {case}", a.hash, b.hash, a.tagged, b.tagged);
                    }
                }
            }
        }
    }
    if !fails.is_empty() {
        st.bump("cases_with_oracle_failure");
    }
    let nontrivial = norm.iter().any(|c| c.len() >= 2) && nonpanic >= 3;
    Outcome { result: results.join(" ; "), fails, nontrivial }
}
