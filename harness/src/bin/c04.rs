//! C04 (this file is c03.rs with the C04 flag set: same programs, plus the well-formedness and canonicity oracle).
//! shape, compression on and off.
//! case:  <compress 0|1> <cap> <vtree> ; <ops>
//!   vtree ::= L <var> | N <vtree> <vtree>            cap = initial unique-table slots (0 = shipped)
//!   ops   ::= t | f | v <var> <pol> | n <i> | a <i> <j> | o <i> <j> | x <i> <j> | q <i> <j>
//!           | i <i> <j> <k> | c <i> <var> <0|1> | e <i> <var> | m <i> <var> <j>      (i,j,k: pool indices)
//!           | k <n> (<len> <lit>*)^n      compile_cnf of Cnf::new(raw clauses); lit = 2*var + polarity
//!        with compression off AND a compile_cnf in the program only truth tables are printed (the clause
//!        order after the code's sort with a non-total comparator is not determined by the property)
//! out:   unfolding of every pool entry (re-walked after the last operation), '#', then for every
//!        entry the index of the first pointer-equal entry.
//! oracle: truth table (128 rows, variables 0..6) of every entry, computed by walking the nodes
//!        (elements, complement bits) -- not through the library's evaluation -- against the spec
//!        program evaluated on bitsets; per reachable node the partition / confinement rules
//!        (C03: what and() relies on; C04 additionally non-false primes, distinct subs, trimming,
//!        the library's own predicates, and pointer equality <=> truth-table equality).
use rsdd::builder::sdd::{CompressionSddBuilder, SddBuilder};
use rsdd::builder::BottomUpBuilder;
use rsdd::repr::{Cnf, DDNNFPtr, DTree, Literal, SddPtr, VTree, VarLabel};
use rsdd::util::btree::BTree;
use rsdd_verif_harness::*;
use std::collections::HashMap;

/// false: property C03 (this file).  true: property C04 (c04.rs is this file with the flag set).
const C04: bool = true;

pub const PROP: Prop = Prop { gen, run, panic_ok: never };

fn main() {
    run_main(PROP)
}

const NV: usize = 7; // truth tables range over variables 0..6
type TT = u128;

fn var_mask(v: usize) -> TT {
    let mut m: TT = 0;
    for row in 0..(1usize << NV) {
        if (row >> v) & 1 == 1 {
            m |= 1u128 << row;
        }
    }
    m
}
fn tt_cond(f: TT, v: usize, b: bool) -> TT {
    let m = var_mask(v);
    let sh = 1usize << v;
    if b {
        let hi = f & m;
        hi | (hi >> sh)
    } else {
        let lo = f & !m;
        lo | (lo << sh)
    }
}
fn tt_depends(f: TT, v: usize) -> bool {
    tt_cond(f, v, true) != tt_cond(f, v, false)
}
fn tt_deps(f: TT) -> u8 {
    let mut m = 0u8;
    for v in 0..NV {
        if tt_depends(f, v) {
            m |= 1 << v;
        }
    }
    m
}

// ---------- vtrees (the harness's own view; nothing from VTreeManager) ----------
#[derive(Clone, Debug)]
enum VT {
    L(u64),
    N(Box<VT>, Box<VT>),
}
#[derive(Clone, Debug)]
struct VInfo {
    leaf: Option<u64>,
    lvars: u8,
    rvars: u8,
    lo: usize,
    hi: usize, // in-order index range of the subtree
    left_is_leaf: bool,
}
fn vt_info(t: &VT, out: &mut Vec<VInfo>) -> u8 {
    match t {
        VT::L(v) => {
            let i = out.len();
            out.push(VInfo { leaf: Some(*v), lvars: 0, rvars: 0, lo: i, hi: i, left_is_leaf: false });
            1u8 << *v
        }
        VT::N(l, r) => {
            let lo = out.len();
            let lv = vt_info(l, out);
            let me = out.len();
            out.push(VInfo { leaf: None, lvars: lv, rvars: 0, lo, hi: 0, left_is_leaf: matches!(**l, VT::L(_)) });
            let rv = vt_info(r, out);
            out[me].rvars = rv;
            out[me].hi = out.len() - 1;
            lv | rv
        }
    }
}
fn vt_text(t: &VT) -> String {
    match t {
        VT::L(v) => format!("L {v}"),
        VT::N(l, r) => format!("N {} {}", vt_text(l), vt_text(r)),
    }
}
fn vt_parse(t: &[&str], i: &mut usize) -> VT {
    match t[*i] {
        "L" => {
            let v = t[*i + 1].parse().unwrap();
            *i += 2;
            VT::L(v)
        }
        "N" => {
            *i += 1;
            let l = vt_parse(t, i);
            let r = vt_parse(t, i);
            VT::N(Box::new(l), Box::new(r))
        }
        _ => panic!("bad vtree"),
    }
}
fn vt_rsdd(t: &VT) -> VTree {
    match t {
        VT::L(v) => VTree::new_leaf(VarLabel::new(*v)),
        VT::N(l, r) => VTree::new_node(Box::new(vt_rsdd(l)), Box::new(vt_rsdd(r))),
    }
}
fn vt_of_rsdd(t: &VTree) -> VT {
    match t {
        BTree::Leaf(v) => VT::L(v.value()),
        BTree::Node((), l, r) => VT::N(Box::new(vt_of_rsdd(l)), Box::new(vt_of_rsdd(r))),
    }
}
/// random CNF over the labels: 0..5 clauses of 0..4 literals; edge stream: empty formula, empty
/// clause, unit clauses, repeated and complementary literals
fn gen_cnf(rng: &mut Rng, labels: &[u64], maxcl: usize) -> Vec<Vec<(u64, bool)>> {
    let n = if rng.chance(1, 12) { 0 } else { rng.range(1, maxcl) };
    let mut f = vec![];
    for _ in 0..n {
        let len = if rng.chance(1, 15) { 0 } else if rng.chance(1, 5) { 1 } else { rng.range(1, 4) };
        let mut c: Vec<(u64, bool)> = vec![];
        for _ in 0..len {
            if !c.is_empty() && rng.chance(1, 8) {
                let (v, b) = *rng.pick(&c);
                c.push((v, if rng.coin() { b } else { !b })); // repeated / complementary literal
            } else {
                c.push((*rng.pick(labels), rng.coin()));
            }
        }
        f.push(c);
    }
    f
}
fn cnf_text(f: &[Vec<(u64, bool)>]) -> String {
    let mut s = format!(" k {}", f.len());
    for c in f {
        s.push_str(&format!(" {}", c.len()));
        for (v, b) in c {
            s.push_str(&format!(" {}", 2 * v + *b as u64));
        }
    }
    s
}
fn cnf_rsdd(f: &[Vec<(u64, bool)>]) -> Cnf {
    let cl: Vec<Vec<Literal>> = f.iter().map(|c| c.iter().map(|(v, b)| Literal::new(VarLabel::new(*v), *b)).collect()).collect();
    Cnf::new(&cl)
}
/// the vtree the library derives from the CNF (min-fill dtree), if it is usable for this case:
/// distinct leaves that cover the labels
fn vt_from_dtree(f: &[Vec<(u64, bool)>], labels: &[u64]) -> Option<VT> {
    if f.is_empty() || f.iter().any(|c| c.is_empty()) {
        return None;
    }
    let f2 = f.to_vec();
    let r = std::panic::catch_unwind(move || {
        let cnf = cnf_rsdd(&f2);
        let dt = DTree::from_cnf(&cnf, &cnf.min_fill_order());
        VTree::from_dtree(&dt).map(|v| vt_of_rsdd(&v))
    });
    let vt = r.ok()??;
    let mut lv = vec![];
    vt_leaves(&vt, &mut lv);
    let mut sorted = lv.clone();
    sorted.sort();
    sorted.dedup();
    if sorted.len() != lv.len() || labels.iter().any(|l| !lv.contains(l)) || lv.iter().any(|l| *l as usize >= NV) {
        return None;
    }
    Some(vt)
}
fn vt_leaves(t: &VT, out: &mut Vec<u64>) {
    match t {
        VT::L(v) => out.push(*v),
        VT::N(l, r) => {
            vt_leaves(l, out);
            vt_leaves(r, out)
        }
    }
}
fn vt_random(rng: &mut Rng, labels: &[u64]) -> VT {
    if labels.len() == 1 {
        return VT::L(labels[0]);
    }
    let k = rng.range(1, labels.len() - 1);
    VT::N(Box::new(vt_random(rng, &labels[..k])), Box::new(vt_random(rng, &labels[k..])))
}
fn vt_right(labels: &[u64]) -> VT {
    if labels.len() == 1 {
        VT::L(labels[0])
    } else {
        VT::N(Box::new(VT::L(labels[0])), Box::new(vt_right(&labels[1..])))
    }
}
fn vt_left(labels: &[u64]) -> VT {
    if labels.len() == 1 {
        VT::L(labels[0])
    } else {
        let n = labels.len();
        VT::N(Box::new(vt_left(&labels[..n - 1])), Box::new(VT::L(labels[n - 1])))
    }
}
fn vt_balanced(labels: &[u64]) -> VT {
    if labels.len() == 1 {
        VT::L(labels[0])
    } else {
        let k = labels.len() / 2;
        VT::N(Box::new(vt_balanced(&labels[..k])), Box::new(vt_balanced(&labels[k..])))
    }
}

// ---------- generator ----------
pub fn gen(rng: &mut Rng, idx: usize, n: usize, thorough: bool) -> String {
    let frac = (idx * 100) / n.max(1);
    let compress = if C04 { !rng.chance(1, 8) } else { rng.chance(3, 5) };
    // unique-table capacity: 0 = shipped size; small values make the tables grow
    let cap = if C04 {
        if rng.chance(2, 3) { rng.range(2, 16) } else { 0 }
    } else if rng.chance(1, 4) {
        rng.range(2, 16)
    } else {
        0
    };
    let maxleaves = if frac < 12 { 3 } else if frac < 40 { 4 } else if frac < 70 { 5 } else { 7 };
    let nleaves = rng.range(if frac < 5 { 1 } else if frac < 40 { 2 } else { 3 }, maxleaves);
    // labels: a random subset of 0..6, in random order
    let mut labels: Vec<u64> = rng.perm(NV).into_iter().map(|x| x as u64).collect();
    if rng.coin() {
        labels = (0..NV as u64).collect();
        rng.shuffle(&mut labels[..nleaves.max(1)]);
    }
    labels.truncate(nleaves);
    let mut vt = match rng.below(6) {
        0 => vt_right(&labels),
        1 => vt_left(&labels),
        2 => vt_balanced(&labels),
        _ => vt_random(rng, &labels),
    };
    // a third of the cases compile CNFs; half of those under the vtree the library derives from
    // the first CNF (VTree::from_dtree(DTree::from_cnf(.., min_fill_order)))
    let cnf_case = rng.chance(1, 3);
    // uncompressed SDDs of CNFs blow up quickly: keep those cases small
    let small = cnf_case && !compress;
    if small && labels.len() > 5 {
        labels.truncate(5);
        vt = vt_random(rng, &labels);
    }
    let maxcl = if small { 3 } else { 5 };
    let first_cnf = gen_cnf(rng, &labels, maxcl);
    let mut dtree_vt = false;
    if cnf_case && rng.coin() {
        // the derived vtree only has the CNF's variables: restrict the labels to them
        let mut used: Vec<u64> = first_cnf.iter().flatten().map(|l| l.0).collect();
        used.sort();
        used.dedup();
        if let Some(v) = vt_from_dtree(&first_cnf, &used) {
            vt = v;
            labels = used;
            dtree_vt = true;
        }
    }
    if dtree_vt && std::env::var("C03_DUMP").is_ok() {
        eprintln!("DTREE-VTREE {}", vt_text(&vt));
    }
    let maxops = if thorough { 40 } else { 26 };
    let mut nops = 4 + (frac * maxops) / 100 + rng.range(0, 4);
    if !compress {
        nops = nops.min(16); // uncompressed SDDs grow exponentially with the program
    }
    if small {
        nops = nops.min(9);
    }
    let mut s = format!("{} {} {} ;", compress as u8, cap, vt_text(&vt));
    let mut len = 0usize;
    let lit = |rng: &mut Rng| format!(" v {} {}", rng.pick(&labels), rng.coin() as u8);
    for _ in 0..rng.range(2, nleaves + 1) {
        s.push_str(&lit(rng));
        len += 1;
    }
    if cnf_case {
        s.push_str(&cnf_text(&first_cnf));
        len += 1;
    }
    while len < nops {
        // operands: biased towards recent (larger) results
        let mut i = rng.below(len as u64) as usize;
        if rng.coin() {
            i = len - 1 - rng.below(len.min(4) as u64) as usize;
        }
        // edge stream: equal arguments, an argument and its negation, recent results
        let mut j = rng.below(len as u64) as usize;
        if rng.chance(1, 10) {
            j = i;
        }
        if rng.chance(1, 3) {
            j = len - 1;
        }
        let k = rng.below(len as u64) as usize;
        let v = *rng.pick(&labels);
        // ite family: two if-then-elses that normalise to the same standard triple (the cache key
        // of one must not answer the other): ite(!a, c, !b) and ite(a, b, c), in either order
        if len >= 3 && len + 4 <= nops && rng.chance(1, 12) {
            let (a, b, c) = (i, j, k);
            let (na, nb) = (len, len + 1);
            s.push_str(&format!(" n {a} n {b}"));
            if rng.coin() {
                s.push_str(&format!(" i {na} {c} {nb} i {a} {b} {c}"));
            } else {
                s.push_str(&format!(" i {a} {b} {c} i {na} {c} {nb}"));
            }
            len += 4;
            continue;
        }
        let op = match rng.below(if cnf_case { 108 } else { 100 }) {
            100..=107 => cnf_text(&gen_cnf(rng, &labels, maxcl)),
            0..=7 => lit(rng),
            8..=9 => (if rng.coin() { " t" } else { " f" }).to_string(),
            10..=14 => format!(" n {i}"),
            15..=39 => format!(" a {i} {j}"),
            40..=54 => format!(" o {i} {j}"),
            55..=61 => format!(" x {i} {j}"),
            62..=68 => format!(" q {i} {j}"),
            69..=78 => format!(" i {i} {j} {k}"),
            79..=87 => format!(" c {i} {v} {}", rng.coin() as u8),
            88..=93 => format!(" e {i} {v}"),
            _ => format!(" m {i} {v} {j}"),
        };
        s.push_str(&op);
        len += 1;
    }
    s
}

// ---------- walking the implementation's nodes ----------
fn addr(p: SddPtr) -> (u8, usize) {
    match p {
        SddPtr::PtrTrue => (0, 0),
        SddPtr::PtrFalse => (1, 0),
        SddPtr::Var(l, b) => (2, (l.value() as usize) * 2 + b as usize),
        SddPtr::BDD(b) => (3, b as *const _ as usize),
        SddPtr::ComplBDD(b) => (4, b as *const _ as usize),
        SddPtr::Reg(o) => (5, o as *const _ as usize),
        SddPtr::Compl(o) => (6, o as *const _ as usize),
    }
}
struct Walk {
    tt: HashMap<(u8, usize), TT>,
    show: HashMap<(u8, usize), String>,
    masks: Vec<TT>,
}
impl Walk {
    fn new() -> Walk {
        Walk { tt: HashMap::new(), show: HashMap::new(), masks: (0..NV).map(var_mask).collect() }
    }
    fn tt(&mut self, p: SddPtr) -> TT {
        if let Some(x) = self.tt.get(&addr(p)) {
            return *x;
        }
        let r = match p {
            SddPtr::PtrTrue => !0,
            SddPtr::PtrFalse => 0,
            SddPtr::Var(l, b) => {
                let m = self.masks[l.value() as usize];
                if b { m } else { !m }
            }
            SddPtr::BDD(b) | SddPtr::ComplBDD(b) => {
                let m = self.masks[b.label().value() as usize];
                let lo = self.tt(b.low());
                let hi = self.tt(b.high());
                let x = (m & hi) | (!m & lo);
                if matches!(p, SddPtr::ComplBDD(_)) { !x } else { x }
            }
            SddPtr::Reg(o) | SddPtr::Compl(o) => {
                let mut x: TT = 0;
                for a in o.iter() {
                    let pt = self.tt(a.prime());
                    let st = self.tt(a.sub());
                    x |= pt & st;
                }
                if matches!(p, SddPtr::Compl(_)) { !x } else { x }
            }
        };
        self.tt.insert(addr(p), r);
        r
    }
    fn show(&mut self, p: SddPtr) -> String {
        if let Some(x) = self.show.get(&addr(p)) {
            return x.clone();
        }
        let r = match p {
            SddPtr::PtrTrue => "T".to_string(),
            SddPtr::PtrFalse => "F".to_string(),
            SddPtr::Var(l, b) => format!("{}v{}", if b { "" } else { "!" }, l.value()),
            SddPtr::BDD(b) | SddPtr::ComplBDD(b) => format!(
                "{}B{}.{}({},{})",
                if matches!(p, SddPtr::ComplBDD(_)) { "~" } else { "" },
                b.index().value(),
                b.label().value(),
                self.show(b.low()),
                self.show(b.high())
            ),
            SddPtr::Reg(o) | SddPtr::Compl(o) => {
                let mut es: Vec<String> = o.iter().map(|a| format!("{}:{}", self.show(a.prime()), self.show(a.sub()))).collect();
                es.sort();
                format!("{}O{}[{}]", if matches!(p, SddPtr::Compl(_)) { "~" } else { "" }, o.index().value(), es.join(";"))
            }
        };
        self.show.insert(addr(p), r.clone());
        r
    }
}
/// all pointers reachable from p (p itself, primes, subs, low/high), each once
fn reach<'a>(p: SddPtr<'a>, seen: &mut HashMap<(u8, usize), SddPtr<'a>>) {
    if seen.contains_key(&addr(p)) {
        return;
    }
    seen.insert(addr(p), p);
    match p {
        SddPtr::BDD(b) | SddPtr::ComplBDD(b) => {
            reach(b.low(), seen);
            reach(b.high(), seen);
        }
        SddPtr::Reg(o) | SddPtr::Compl(o) => {
            for a in o.iter() {
                reach(a.prime(), seen);
                reach(a.sub(), seen);
            }
        }
        _ => {}
    }
}

fn vidx_of(p: SddPtr, infos: &[VInfo]) -> Option<usize> {
    match p {
        SddPtr::Var(l, _) => infos.iter().position(|x| x.leaf == Some(l.value())),
        SddPtr::BDD(b) | SddPtr::ComplBDD(b) => Some(b.index().value()),
        SddPtr::Reg(o) | SddPtr::Compl(o) => Some(o.index().value()),
        _ => None,
    }
}
fn classify(a: SddPtr, b: SddPtr, infos: &[VInfo]) -> &'static str {
    if a.is_true() || a.is_false() || b.is_true() || b.is_false() || a == b || a == b.neg() {
        return "and_base_case";
    }
    let (i, j) = (vidx_of(a, infos).unwrap(), vidx_of(b, infos).unwrap());
    let (i, j) = if i <= j { (i, j) } else { (j, i) };
    if i == j {
        return "and_cartesian";
    }
    // lca = smallest subtree containing both
    let l = (0..infos.len()).filter(|&k| infos[k].lo <= i && j <= infos[k].hi).min_by_key(|&k| infos[k].hi - infos[k].lo).unwrap();
    if l == i {
        "and_sub_desc"
    } else if l == j {
        "and_prime_desc"
    } else if infos[l].left_is_leaf {
        "and_indep_right_linear"
    } else {
        "and_indep"
    }
}

/// structural rules of one reachable node, from truth tables of its own primes and subs
fn check_node(p: SddPtr, w: &mut Walk, infos: &[VInfo], compress: bool, fails: &mut Vec<String>, st: &mut Stats) {
    let full: TT = !0;
    match p {
        SddPtr::BDD(b) | SddPtr::ComplBDD(b) => {
            st.bump("nodes_binary");
            let i = b.index().value();
            if i >= infos.len() || infos[i].leaf.is_some() {
                fails.push(format!("binary node {} sits at vtree index {i}, which is not an internal node", w.show(p)));
                return;
            }
            let inf = &infos[i];
            if inf.lvars & (1 << b.label().value()) == 0 {
                fails.push(format!("binary node {}: decision variable is not under the left child of vtree node {i}", w.show(p)));
            }
            for (nm, c) in [("low", b.low()), ("high", b.high())] {
                let d = tt_deps(w.tt(c));
                if d & !inf.rvars != 0 {
                    fails.push(format!("binary node {}: {nm} child depends on variables outside the right child of vtree node {i}", w.show(p)));
                }
            }
            if compress && C04 {
                if b.low() == b.high() || w.tt(b.low()) == w.tt(b.high()) {
                    fails.push(format!("binary node {} has two equal children (not compressed)", w.show(p)));
                }
                if (w.tt(b.low()) == 0 && w.tt(b.high()) == full) || (w.tt(b.low()) == full && w.tt(b.high()) == 0) {
                    fails.push(format!("binary node {} is a literal in disguise (not trimmed)", w.show(p)));
                }
            }
        }
        SddPtr::Reg(o) | SddPtr::Compl(o) => {
            st.bump("nodes_general");
            let i = o.index().value();
            if i >= infos.len() || infos[i].leaf.is_some() {
                fails.push(format!("decision node {} sits at vtree index {i}, which is not an internal node", w.show(p)));
                return;
            }
            let inf = infos[i].clone();
            let els: Vec<(SddPtr, SddPtr)> = o.iter().map(|a| (a.prime(), a.sub())).collect();
            let mut union: TT = 0;
            for (k, (pr, sb)) in els.iter().enumerate() {
                let pt = w.tt(*pr);
                if tt_deps(pt) & !inf.lvars != 0 {
                    fails.push(format!("node {}: prime {k} depends on variables outside the left child of vtree node {i}", w.show(p)));
                }
                if tt_deps(w.tt(*sb)) & !inf.rvars != 0 {
                    fails.push(format!("node {}: sub {k} depends on variables outside the right child of vtree node {i}", w.show(p)));
                }
                if union & pt != 0 {
                    fails.push(format!("node {}: prime {k} overlaps an earlier prime (not mutually exclusive)", w.show(p)));
                }
                union |= pt;
                if compress && C04 && pt == 0 {
                    fails.push(format!("node {}: prime {k} is unsatisfiable", w.show(p)));
                }
            }
            if union != full {
                fails.push(format!("node {}: primes are not exhaustive", w.show(p)));
            }
            if compress && C04 {
                for k in 0..els.len() {
                    for m in 0..k {
                        if els[k].1 == els[m].1 || w.tt(els[k].1) == w.tt(els[m].1) {
                            fails.push(format!("node {}: subs {m} and {k} are equal (not compressed)", w.show(p)));
                        }
                    }
                }
                if els.len() < 2 {
                    fails.push(format!("node {} has fewer than two elements (not trimmed)", w.show(p)));
                }
                if els.len() == 2 {
                    let (s0, s1) = (w.tt(els[0].1), w.tt(els[1].1));
                    if (s0 == full && s1 == 0) || (s0 == 0 && s1 == full) {
                        fails.push(format!("node {} is its own prime in disguise: {{(p,T),(~p,F)}} (not trimmed)", w.show(p)));
                    }
                }
            }
        }
        _ => {}
    }
}

pub fn run(case: &str, st: &mut Stats) -> Outcome {
    if std::env::var("C03_DUMP").is_ok() {
        eprintln!("CASE {case}");
    }
    let t = toks(case);
    let compress = t[0] == "1";
    let cap: usize = t[1].parse().unwrap();
    let mut i = 2;
    let vt = vt_parse(&t, &mut i);
    assert!(i == t.len() || t[i] == ";");
    i += 1;
    let mut infos = vec![];
    vt_info(&vt, &mut infos);
    let mut leaves = vec![];
    vt_leaves(&vt, &mut leaves);

    rsdd::verif::TABLE_CAPACITY.with(|c| c.set(if cap > 0 { Some(cap) } else { None }));
    let mut builder = CompressionSddBuilder::new(vt_rsdd(&vt));
    rsdd::verif::TABLE_CAPACITY.with(|c| c.set(None));
    if !compress {
        builder.set_compression(false);
    }
    let builder = &builder;
    let masks: Vec<TT> = (0..NV).map(var_mask).collect();
    let mut pool: Vec<SddPtr> = vec![];
    let mut spec: Vec<TT> = vec![];
    let mut nbin = 0;
    let mut has_cnf = false;
    let ix = |s: &str| -> usize { s.parse().unwrap() };
    while i < t.len() {
        let (r, sp, adv): (SddPtr, TT, usize) = match t[i] {
            "t" => (SddPtr::PtrTrue, !0, 1),
            "f" => (SddPtr::PtrFalse, 0, 1),
            "v" => {
                let (v, p) = (ix(t[i + 1]), t[i + 2] == "1");
                (builder.var(VarLabel::new(v as u64), p), if p { masks[v] } else { !masks[v] }, 3)
            }
            "n" => {
                let a = ix(t[i + 1]);
                (builder.negate(pool[a]), !spec[a], 2)
            }
            "a" | "o" | "x" | "q" => {
                let (a, b) = (ix(t[i + 1]), ix(t[i + 2]));
                nbin += 1;
                match t[i] {
                    "a" => {
                        st.bump(classify(pool[a], pool[b], &infos));
                        (builder.and(pool[a], pool[b]), spec[a] & spec[b], 3)
                    }
                    "o" => {
                        st.bump(classify(pool[a].neg(), pool[b].neg(), &infos));
                        (builder.or(pool[a], pool[b]), spec[a] | spec[b], 3)
                    }
                    "x" => (builder.xor(pool[a], pool[b]), spec[a] ^ spec[b], 3),
                    _ => (builder.iff(pool[a], pool[b]), !(spec[a] ^ spec[b]), 3),
                }
            }
            "i" => {
                let (a, b, c) = (ix(t[i + 1]), ix(t[i + 2]), ix(t[i + 3]));
                nbin += 1;
                (builder.ite(pool[a], pool[b], pool[c]), (spec[a] & spec[b]) | (!spec[a] & spec[c]), 4)
            }
            "c" => {
                let (a, v, b) = (ix(t[i + 1]), ix(t[i + 2]), t[i + 3] == "1");
                (builder.condition(pool[a], VarLabel::new(v as u64), b), tt_cond(spec[a], v, b), 4)
            }
            "e" => {
                let (a, v) = (ix(t[i + 1]), ix(t[i + 2]));
                (builder.exists(pool[a], VarLabel::new(v as u64)), tt_cond(spec[a], v, true) | tt_cond(spec[a], v, false), 3)
            }
            "m" => {
                // documented definition (builder/mod.rs): exists v. (v <=> g) /\ f
                let (a, v, g) = (ix(t[i + 1]), ix(t[i + 2]), ix(t[i + 3]));
                let body = !(masks[v] ^ spec[g]) & spec[a];
                (builder.compose(pool[a], VarLabel::new(v as u64), pool[g]), tt_cond(body, v, true) | tt_cond(body, v, false), 4)
            }
            "k" => {
                let n = ix(t[i + 1]);
                let mut j = i + 2;
                let mut f: Vec<Vec<(u64, bool)>> = vec![];
                for _ in 0..n {
                    let len = ix(t[j]);
                    j += 1;
                    let mut c = vec![];
                    for _ in 0..len {
                        let x = ix(t[j]) as u64;
                        c.push((x / 2, x % 2 == 1));
                        j += 1;
                    }
                    f.push(c);
                }
                // oracle: truth table from the raw clauses
                let mut sp: TT = !0;
                for c in &f {
                    let mut ct: TT = 0;
                    for (v, b) in c {
                        ct |= if *b { masks[*v as usize] } else { !masks[*v as usize] };
                    }
                    sp &= ct;
                }
                has_cnf = true;
                st.bump(if f.is_empty() { "cnf_empty_formula" } else if f.iter().any(|c| c.is_empty()) { "cnf_with_empty_clause" } else { "cnf_regular" });
                let cnf = cnf_rsdd(&f);
                (builder.compile_cnf(&cnf), sp, j - i)
            }
            _ => panic!("bad op"),
        };
        st.bump(&format!("op_{}", t[i]));
        pool.push(r);
        spec.push(sp);
        i += adv;
    }
    // observe: every pool entry is re-walked after the last operation
    let mut w = Walk::new();
    let mut fails = vec![];
    let mut out: Vec<String> = vec![];
    for (k, p) in pool.iter().enumerate() {
        out.push(w.show(*p));
        let got = w.tt(*p);
        if got != spec[k] {
            fails.push(format!("pool entry {k} = {} has truth table {:032x}, the operation's definition gives {:032x}", w.show(*p), got, spec[k]));
        }
    }
    out.push("#".to_string());
    if has_cnf && !compress {
        // clause order after the code's sort is unspecified: only denotations are determined
        out.clear();
        for p in pool.iter() {
            out.push(format!("{:032x}", w.tt(*p)));
        }
        out.push("#".to_string());
        out.push("tt".to_string());
        st.bump("truth_table_mode_cases");
    } else {
        for k in 0..pool.len() {
            let first = (0..k).find(|&m| pool[m] == pool[k]).unwrap_or(k);
            out.push(first.to_string());
        }
    }
    // per reachable node: partition and vtree confinement (+ C04: compressed, trimmed, canonical)
    let mut seen: HashMap<(u8, usize), SddPtr> = HashMap::new();
    for p in &pool {
        reach(*p, &mut seen);
    }
    let mut keys: Vec<(u8, usize)> = seen.keys().cloned().collect();
    keys.sort();
    let mut any_node = false;
    let mut any_general = false;
    for k in &keys {
        let p = seen[k];
        match p {
            SddPtr::BDD(_) | SddPtr::ComplBDD(_) => any_node = true,
            SddPtr::Reg(_) | SddPtr::Compl(_) => {
                any_node = true;
                any_general = true
            }
            _ => {}
        }
        if p.is_neg() {
            st.bump("complemented_pointers");
        }
        check_node(p, &mut w, &infos, compress, &mut fails, st);
    }
    if C04 && compress {
        // pointer equality <=> same function, over everything reachable
        let mut by_tt: HashMap<TT, SddPtr> = HashMap::new();
        for k in &keys {
            let p = seen[k];
            let x = w.tt(p);
            if let Some(q) = by_tt.get(&x) {
                if *q != p {
                    fails.push(format!("{} and {} denote the same function but are different pointers", w.show(*q), w.show(p)));
                }
            } else {
                by_tt.insert(x, p);
            }
        }
        for a in 0..pool.len() {
            for b in 0..a {
                if (pool[a] == pool[b]) != (spec[a] == spec[b]) {
                    fails.push(format!("pool entries {b} and {a}: pointer-equal = {}, same function = {}", pool[a] == pool[b], spec[a] == spec[b]));
                }
            }
        }
        // the library's own predicates, as a cross-check
        for (k, p) in pool.iter().enumerate() {
            if !p.is_compressed() || !p.is_trimmed() || !p.is_canonical() {
                fails.push(format!("library predicate fails on pool entry {k}: compressed={} trimmed={}", p.is_compressed(), p.is_trimmed()));
            }
        }
    }
    let _ = &leaves;
    st.bump(if compress { "compression_on" } else { "compression_off" });
    st.bump(&format!("leaves={}", leaves.len()));
    st.bump(&format!("table_cap={}", if cap == 0 { "shipped".to_string() } else if cap <= 4 { "2-4".to_string() } else { "5-16".to_string() }));
    if any_general {
        st.bump("cases_with_general_nodes");
    }
    fails.truncate(5);
    Outcome { result: out.join(" "), fails, nontrivial: any_node && (nbin > 0 || has_cnf) }
}
