//! C13 semiring laws: drive the real weight types of rsdd::util::semirings on generated triples.
//! One case = one weight type + three operands; the result line is a fixed battery of
//! expressions over them (see the `*_battery` functions; the OCaml driver evaluates the same
//! battery on the extracted Coq model).  All numbers are printed exactly: residues as decimal
//! integers, f64 values as reduced fractions n/d obtained from the bit pattern, never a decimal
//! expansion.
//!
//! cases:
//!   ff <P> <a> <b> <c>                  raw u128 arguments of FiniteField::<P>::new
//!   bool <a> <b> <c>                    0/1
//!   real <a> <b> <c>                    dyadic fractions n/d
//!   cx <are> <aim> <bre> <bim> <cre> <cim>
//!   eu <ap> <au> <bp> <bu> <cp> <cu>
//!   rat <a> <b> <c>                     naturals (the only values constructible through the API)
//!   poly (real|ff11) <len> <k> <c_0..c_{k-1}>  x3    integer coefficients, rest of the array zero
//! The oracle recomputes every battery entry with independent exact arithmetic (256-bit
//! shift-subtract modular product, i128 fractions, integer convolution) and checks the laws
//! on the implementation's own results.
use rsdd::constants::primes;
use rsdd::util::semirings::*;
use rsdd_verif_harness::*;

pub const PROP: Prop = Prop { gen, run, panic_ok: never };

fn main() {
    run_main(PROP)
}

const EXPORTED: [u128; 7] = [
    primes::U32_TINY,
    primes::U32_SMALL,
    primes::U64_LARGEST,
    primes::U128_LARGE_1,
    primes::U128_LARGE_2,
    primes::U128_LARGE_3,
    primes::U128_LARGE_4,
];
const SMALL: [u128; 5] = [2, 3, 5, 7, 11];

// ------------------------------------------------------------------------------------------
// generation
fn boundary(p: u128) -> [u128; 8] {
    [0, 1, 2, p / 2 - 1, p / 2, p / 2 + 1, p - 2, p - 1]
}

fn r128(rng: &mut Rng) -> u128 {
    ((rng.next() as u128) << 64) | rng.next() as u128
}

fn dyadic(rng: &mut Rng, big: bool) -> String {
    let b: i64 = if big { 4096 } else { 8 };
    let n = rng.below((2 * b + 1) as u64) as i64 - b;
    let k = if rng.chance(1, 3) { 0 } else { rng.below(if big { 7 } else { 3 }) };
    format!("{}/{}", n, 1u64 << k)
}

fn small_dy(rng: &mut Rng) -> String {
    // few distinct values: ties and equal components are common
    (*rng.pick(&["0/1", "1/1", "1/2", "2/1", "-1/1", "3/4", "3/1", "-1/2"])).to_string()
}

fn gen_poly_operand(rng: &mut Rng, ff: bool, malformed: bool) -> String {
    let len = match rng.below(10) {
        0 => 0,
        1 => 1,
        2 => 2,
        3 => 3,
        4 | 5 => 31,
        6 | 7 => 32,
        _ => rng.range(0, 32),
    };
    let (len, k) = if malformed {
        // len field inconsistent with the array contents (public fields)
        match rng.below(3) {
            0 => (len, rng.range(len, 32)),           // garbage beyond len
            1 => (*rng.pick(&[33usize, 40]), 32),     // len beyond the array
            _ => (len, len / 2),                      // trailing zeros inside len
        }
    } else {
        (len, len)
    };
    let mut s = format!("{len} {k}");
    let wide = rng.chance(1, 4);
    for _ in 0..k {
        let c: i64 = if ff {
            rng.below(11) as i64
        } else if wide {
            rng.below(17) as i64 - 8
        } else {
            rng.below(3) as i64
        };
        s.push_str(&format!(" {c}"));
    }
    s
}

pub fn gen(rng: &mut Rng, idx: usize, n: usize, thorough: bool) -> String {
    let mut i = idx;
    // A: every triple of residues of the small primes
    for p in SMALL {
        let q = p as usize;
        if i < q * q * q {
            return format!("ff {p} {} {} {}", i / (q * q), (i / q) % q, i % q);
        }
        i -= q * q * q;
    }
    // B: all Boolean triples
    if i < 8 {
        return format!("bool {} {} {}", i >> 2 & 1, i >> 1 & 1, i & 1);
    }
    i -= 8;
    // C: every pair of boundary residues of every exported prime (third operand a random boundary)
    if i < 7 * 64 {
        let p = EXPORTED[i / 64];
        let b = boundary(p);
        return format!("ff {p} {} {} {}", b[(i / 8) % 8], b[i % 8], b[rng.below(8) as usize]);
    }
    i -= 7 * 64;
    // D (thorough): every triple of boundary residues
    if thorough {
        if i < 7 * 512 {
            let p = EXPORTED[i / 512];
            let b = boundary(p);
            return format!("ff {p} {} {} {}", b[(i / 64) % 8], b[(i / 8) % 8], b[i % 8]);
        }
    }
    // E: random, sizes growing with the index
    let late = idx * 2 > n;
    match rng.below(20) {
        0..=6 => {
            let p = if rng.chance(1, 8) { *rng.pick(&SMALL) } else { *rng.pick(&EXPORTED) };
            let mut v = [0u128; 3];
            for x in v.iter_mut() {
                *x = match rng.below(8) {
                    0 => *rng.pick(&boundary(p.max(4))) % p.max(1),
                    1 => r128(rng),                                   // raw, reduced by new()
                    2 => u128::MAX - rng.below(4) as u128,            // top of the u128 range
                    3 => p + rng.below(3) as u128,                    // just above the modulus
                    _ => r128(rng) % p,
                };
            }
            format!("ff {p} {} {} {}", v[0], v[1], v[2])
        }
        7..=9 => format!("real {} {} {}", dyadic(rng, late), dyadic(rng, late), dyadic(rng, late)),
        10..=12 => {
            let mut s = "eu".to_string();
            let tie = rng.chance(1, 2);
            for _ in 0..6 {
                s.push(' ');
                s.push_str(&if tie { small_dy(rng) } else { dyadic(rng, late) });
            }
            s
        }
        13..=14 => {
            let mut s = "cx".to_string();
            for _ in 0..6 {
                s.push(' ');
                s.push_str(&dyadic(rng, late));
            }
            s
        }
        15 => {
            let m = if late { 1 << 20 } else { 12 };
            format!("rat {} {} {}", rng.below(m), rng.below(m), rng.below(m))
        }
        16 => format!("bool {} {} {}", rng.below(2), rng.below(2), rng.below(2)),
        _ => {
            let ff = rng.chance(1, 3);
            let malformed = rng.chance(1, 10);
            format!(
                "poly {} {} {} {}",
                if ff { "ff11" } else { "real" },
                gen_poly_operand(rng, ff, malformed),
                gen_poly_operand(rng, ff, malformed),
                gen_poly_operand(rng, ff, malformed)
            )
        }
    }
}

// ------------------------------------------------------------------------------------------
// independent exact arithmetic for the oracle

/// 128x128 -> 256 bit product (hi, lo) by 64-bit limbs
fn mul_wide(a: u128, b: u128) -> (u128, u128) {
    const M: u128 = (1u128 << 64) - 1;
    let (a1, a0) = (a >> 64, a & M);
    let (b1, b0) = (b >> 64, b & M);
    let (p00, p01, p10, p11) = (a0 * b0, a0 * b1, a1 * b0, a1 * b1);
    let mid = (p00 >> 64) + (p01 & M) + (p10 & M);
    let lo = (p00 & M) | ((mid & M) << 64);
    let hi = p11 + (p01 >> 64) + (p10 >> 64) + (mid >> 64);
    (hi, lo)
}

/// (hi:lo) mod p by shift-subtract; needs p <= 2^127
fn mod_wide(hi: u128, lo: u128, p: u128) -> u128 {
    let mut r: u128 = 0;
    for i in (0..256).rev() {
        let bit = if i >= 128 { (hi >> (i - 128)) & 1 } else { (lo >> i) & 1 };
        r = (r << 1) | bit;
        if r >= p {
            r -= p;
        }
    }
    r
}

#[derive(Clone, Copy, PartialEq, Debug)]
struct Zp(u128, u128); // (value, modulus)
impl Zp {
    fn add(self, o: Zp) -> Zp {
        let s = self.0 + o.0; // < 2^128 because p <= 2^127
        Zp(if s >= self.1 { s - self.1 } else { s }, self.1)
    }
    fn mul(self, o: Zp) -> Zp {
        let (h, l) = mul_wide(self.0, o.0);
        Zp(mod_wide(h, l, self.1), self.1)
    }
    fn sub(self, o: Zp) -> Zp {
        // the unique r < p with r + o = self (mod p)
        Zp(if self.0 >= o.0 { self.0 - o.0 } else { self.1 - o.0 + self.0 }, self.1)
    }
}

/// exact fraction n/d with d > 0 (i128; the generated values keep everything far below 2^100)
#[derive(Clone, Copy, Debug)]
struct Fr(i128, i128);
fn gcd(a: i128, b: i128) -> i128 {
    if b == 0 {
        a.abs()
    } else {
        gcd(b, a % b)
    }
}
impl Fr {
    fn norm(self) -> Fr {
        let g = gcd(self.0, self.1).max(1);
        Fr(self.0 / g, self.1 / g)
    }
    fn add(self, o: Fr) -> Fr {
        Fr(self.0 * o.1 + o.0 * self.1, self.1 * o.1).norm()
    }
    fn sub(self, o: Fr) -> Fr {
        Fr(self.0 * o.1 - o.0 * self.1, self.1 * o.1).norm()
    }
    fn mul(self, o: Fr) -> Fr {
        Fr(self.0 * o.0, self.1 * o.1).norm()
    }
    fn lt(self, o: Fr) -> bool {
        self.0 * o.1 < o.0 * self.1
    }
    fn eq(self, o: Fr) -> bool {
        self.0 * o.1 == o.0 * self.1
    }
    fn max(self, o: Fr) -> Fr {
        if self.lt(o) {
            o
        } else {
            self
        }
    }
    fn min(self, o: Fr) -> Fr {
        if o.lt(self) {
            o
        } else {
            self
        }
    }
    fn show(self) -> String {
        let f = self.norm();
        format!("{}/{}", f.0, f.1)
    }
    fn parse(s: &str) -> Fr {
        let (n, d) = s.split_once('/').unwrap_or((s, "1"));
        Fr(n.parse().unwrap(), d.parse().unwrap()).norm()
    }
    fn to_f64(self) -> f64 {
        self.0 as f64 / self.1 as f64 // exact: small numerator, power-of-two denominator
    }
}

/// the exact value of a finite f64 as a reduced fraction, from its bit pattern
fn f64_exact(x: f64) -> String {
    if x.is_nan() {
        return "NAN".into();
    }
    if x.is_infinite() {
        return "INF".into();
    }
    let bits = x.to_bits();
    let neg = bits >> 63 == 1;
    let e = ((bits >> 52) & 0x7ff) as i32;
    let frac = (bits & ((1u64 << 52) - 1)) as i128;
    let (mut m, mut ex) = if e == 0 { (frac, -1074) } else { (frac | (1i128 << 52), e - 1075) };
    if m == 0 {
        return "0/1".into();
    }
    while m % 2 == 0 {
        m /= 2;
        ex += 1;
    }
    if neg {
        m = -m;
    }
    if ex >= 0 {
        if ex > 60 {
            return "HUGE".into();
        }
        format!("{}/1", m << ex)
    } else {
        if ex < -100 {
            return "TINY".into();
        }
        format!("{}/{}", m, 1i128 << (-ex))
    }
}

fn check(fails: &mut Vec<String>, what: &str, got: &str, want: &str) {
    if got != want {
        fails.push(format!("{what}: implementation {got}, exact arithmetic {want}"));
    }
}

// ------------------------------------------------------------------------------------------
// FiniteField
fn ff_battery<const P: u128>(a: u128, b: u128, c: u128, fails: &mut Vec<String>, st: &mut Stats) -> (String, bool) {
    type F<const P: u128> = FiniteField<P>;
    let (x, y, z) = (F::<P>::new(a), F::<P>::new(b), F::<P>::new(c));
    let (one, zero) = (F::<P>::one(), F::<P>::zero());
    let got: Vec<u128> = vec![
        x.value(),
        y.value(),
        z.value(),
        (x + y).value(),
        (x * y).value(),
        (x - y).value(),
        (y - x).value(),
        x.negate().value(),
        ((x + y) + z).value(),
        (x + (y + z)).value(),
        ((x * y) * z).value(),
        (x * (y * z)).value(),
        (x * (y + z)).value(),
        (x * y + x * z).value(),
        ((x + y) - y).value(),
        ((x - y) + y).value(),
        one.value(),
        zero.value(),
        (x * one).value(),
        (x + zero).value(),
        (x * zero).value(),
        (y * x).value(),
        (y + x).value(),
        ((y + z) * x).value(),
    ];
    // oracle
    let (ox, oy, oz) = (Zp(a % P, P), Zp(b % P, P), Zp(c % P, P));
    let (o1, o0) = (Zp(1 % P, P), Zp(0, P));
    let want: Vec<Zp> = vec![
        ox,
        oy,
        oz,
        ox.add(oy),
        ox.mul(oy),
        ox.sub(oy),
        oy.sub(ox),
        o1.sub(ox),
        ox.add(oy).add(oz),
        ox.add(oy).add(oz),
        ox.mul(oy).mul(oz),
        ox.mul(oy).mul(oz),
        ox.mul(oy.add(oz)),
        ox.mul(oy.add(oz)),
        ox,
        ox,
        o1,
        o0,
        ox,
        ox,
        o0,
        ox.mul(oy),
        ox.add(oy),
        ox.mul(oy.add(oz)),
    ];
    const NAMES: [&str; 24] = [
        "new(a)", "new(b)", "new(c)", "x+y", "x*y", "x-y", "y-x", "negate(x)=1-x", "(x+y)+z", "x+(y+z)", "(x*y)*z",
        "x*(y*z)", "x*(y+z)", "x*y+x*z", "(x+y)-y", "(x-y)+y", "one", "zero", "x*one", "x+zero", "x*zero", "y*x", "y+x",
        "(y+z)*x",
    ];
    for i in 0..got.len() {
        if got[i] != want[i].0 {
            fails.push(format!("FiniteField<{P}> {} with x={} y={} z={}: implementation {}, integer arithmetic mod P {}", NAMES[i], ox.0, oy.0, oz.0, got[i], want[i].0));
        }
        if got[i] >= P {
            fails.push(format!("FiniteField<{P}> {}: value {} is not a residue", NAMES[i], got[i]));
        }
    }
    // independent cross-check of the 256-bit oracle itself on a second route: (x*y) + (P-x)*y = 0
    let back = ox.mul(oy).add(Zp((P - ox.0) % P, P).mul(oy));
    if back.0 != 0 {
        fails.push(format!("oracle self-check failed for P={P} x={} y={}", ox.0, oy.0));
    }
    if ox.0.checked_mul(oy.0).is_none() {
        st.bump("ff_product_exceeds_u128");
    }
    if a >= P || b >= P || c >= P {
        st.bump("ff_new_reduces");
    }
    let triv = |v: u128| v <= 1;
    let nontrivial = [ox.0, oy.0, oz.0].iter().filter(|v| !triv(**v)).count() >= 2;
    (got.iter().map(|v| v.to_string()).collect::<Vec<_>>().join(" "), nontrivial)
}

fn ff_dispatch(p: u128, a: u128, b: u128, c: u128, fails: &mut Vec<String>, st: &mut Stats) -> Option<(String, bool)> {
    macro_rules! d {
        ($($c:expr),*) => { $( if p == $c { return Some(ff_battery::<{ $c }>(a, b, c, fails, st)); } )* };
    }
    d!(
        primes::U32_TINY,
        primes::U32_SMALL,
        primes::U64_LARGEST,
        primes::U128_LARGE_1,
        primes::U128_LARGE_2,
        primes::U128_LARGE_3,
        primes::U128_LARGE_4,
        2,
        3,
        5,
        7,
        11
    );
    None
}

// ------------------------------------------------------------------------------------------
// f64-based types
fn rs(f: Fr) -> RealSemiring {
    RealSemiring(f.to_f64())
}
fn show_r(x: RealSemiring) -> String {
    f64_exact(x.0)
}
fn b01(b: bool) -> &'static str {
    if b {
        "1"
    } else {
        "0"
    }
}

fn real_battery(a: Fr, b: Fr, c: Fr, fails: &mut Vec<String>) -> String {
    let (x, y, z) = (rs(a), rs(b), rs(c));
    let (one, zero) = (RealSemiring::one(), RealSemiring::zero());
    let got: Vec<String> = vec![
        show_r(x + y),
        show_r(x * y),
        show_r(x - y),
        show_r((x + y) + z),
        show_r(x + (y + z)),
        show_r((x * y) * z),
        show_r(x * (y * z)),
        show_r(x * (y + z)),
        show_r(x * y + x * z),
        show_r(one),
        show_r(zero),
        show_r(x.join(&y)),
        show_r(x.meet(&y)),
        show_r(BBSemiring::choose(&x, &y)),
        show_r(BBRing::choose(&x, &y)),
        b01(x <= y).to_string(),
        show_r(x.join(&y).join(&z)),
        show_r(x.join(&y.join(&z))),
        show_r(x.meet(&y).meet(&z)),
        show_r(x.meet(&y.meet(&z))),
        show_r((x + y) - y),
        show_r(y * x),
        show_r(x * one),
        show_r(x + zero),
        show_r(x * zero),
    ];
    let want: Vec<String> = vec![
        a.add(b).show(),
        a.mul(b).show(),
        a.sub(b).show(),
        a.add(b).add(c).show(),
        a.add(b).add(c).show(),
        a.mul(b).mul(c).show(),
        a.mul(b).mul(c).show(),
        a.mul(b.add(c)).show(),
        a.mul(b.add(c)).show(),
        "1/1".into(),
        "0/1".into(),
        a.max(b).show(),
        a.min(b).show(),
        a.max(b).show(),
        a.max(b).show(),
        b01(a.lt(b) || a.eq(b)).to_string(),
        a.max(b).max(c).show(),
        a.max(b).max(c).show(),
        a.min(b).min(c).show(),
        a.min(b).min(c).show(),
        a.show(),
        a.mul(b).show(),
        a.show(),
        a.show(),
        "0/1".into(),
    ];
    for i in 0..got.len() {
        check(fails, &format!("RealSemiring battery[{i}] a={} b={} c={}", a.show(), b.show(), c.show()), &got[i], &want[i]);
    }
    // order law as stated: le a b -> join = choose = b, meet = a
    if x <= y && !(x.join(&y) == y && BBSemiring::choose(&x, &y) == y && x.meet(&y) == x) {
        fails.push(format!("RealSemiring: {} <= {} but join/choose/meet do not return the larger/smaller", a.show(), b.show()));
    }
    got.join(" ")
}

fn show_cx(x: Complex) -> String {
    format!("{},{}", f64_exact(x.re), f64_exact(x.im))
}
fn cx_battery(v: &[Fr], fails: &mut Vec<String>) -> String {
    let mk = |r: Fr, i: Fr| Complex { re: r.to_f64(), im: i.to_f64() };
    let (x, y, z) = (mk(v[0], v[1]), mk(v[2], v[3]), mk(v[4], v[5]));
    let (one, zero) = (Complex::one(), Complex::zero());
    let got: Vec<String> = vec![
        show_cx(x + y),
        show_cx(x * y),
        show_cx(x - y),
        show_cx((x + y) + z),
        show_cx(x + (y + z)),
        show_cx((x * y) * z),
        show_cx(x * (y * z)),
        show_cx(x * (y + z)),
        show_cx(x * y + x * z),
        show_cx(one),
        show_cx(zero),
        show_cx(y * x),
        show_cx(x * one),
        show_cx(x + zero),
        show_cx(x * zero),
        show_cx((x + y) - y),
    ];
    type C2 = (Fr, Fr);
    let add = |a: C2, b: C2| (a.0.add(b.0), a.1.add(b.1));
    let sub = |a: C2, b: C2| (a.0.sub(b.0), a.1.sub(b.1));
    let mul = |a: C2, b: C2| (a.0.mul(b.0).sub(a.1.mul(b.1)), a.0.mul(b.1).add(a.1.mul(b.0)));
    let sh = |a: C2| format!("{},{}", a.0.show(), a.1.show());
    let (a, b, c) = ((v[0], v[1]), (v[2], v[3]), (v[4], v[5]));
    let want: Vec<String> = vec![
        sh(add(a, b)),
        sh(mul(a, b)),
        sh(sub(a, b)),
        sh(add(add(a, b), c)),
        sh(add(add(a, b), c)),
        sh(mul(mul(a, b), c)),
        sh(mul(mul(a, b), c)),
        sh(mul(a, add(b, c))),
        sh(mul(a, add(b, c))),
        "1/1,0/1".into(),
        "0/1,0/1".into(),
        sh(mul(a, b)),
        sh(a),
        sh(a),
        "0/1,0/1".into(),
        sh(a),
    ];
    for i in 0..got.len() {
        check(fails, &format!("Complex battery[{i}] a={} b={} c={}", sh(a), sh(b), sh(c)), &got[i], &want[i]);
    }
    got.join(" ")
}

fn show_eu(x: ExpectedUtility) -> String {
    format!("{},{}", f64_exact(x.0), f64_exact(x.1))
}
fn eu_battery(v: &[Fr], fails: &mut Vec<String>, st: &mut Stats) -> String {
    let mk = |p: Fr, u: Fr| ExpectedUtility(p.to_f64(), u.to_f64());
    let (x, y, z) = (mk(v[0], v[1]), mk(v[2], v[3]), mk(v[4], v[5]));
    let (one, zero) = (ExpectedUtility::one(), ExpectedUtility::zero());
    let cmp = match x.partial_cmp(&y) {
        Some(std::cmp::Ordering::Less) => "L",
        Some(std::cmp::Ordering::Greater) => "G",
        Some(std::cmp::Ordering::Equal) => "E",
        None => "N",
    };
    st.bump(&format!("eu_partial_cmp={cmp}"));
    let got: Vec<String> = vec![
        show_eu(x + y),
        show_eu(x * y),
        show_eu(x - y),
        show_eu((x + y) + z),
        show_eu(x + (y + z)),
        show_eu((x * y) * z),
        show_eu(x * (y * z)),
        show_eu(x * (y + z)),
        show_eu(x * y + x * z),
        show_eu(one),
        show_eu(zero),
        show_eu(x.join(&y)),
        show_eu(x.meet(&y)),
        show_eu(BBSemiring::choose(&x, &y)),
        show_eu(BBRing::choose(&x, &y)),
        cmp.to_string(),
        b01(x <= y).to_string(),
        show_eu(x.join(&y).join(&z)),
        show_eu(x.join(&y.join(&z))),
        show_eu(x.meet(&y).meet(&z)),
        show_eu(x.meet(&y.meet(&z))),
        show_eu((x + y) - y),
        show_eu(y * x),
        show_eu(x * one),
        show_eu(x + zero),
        show_eu(x * zero),
    ];
    type E2 = (Fr, Fr);
    let add = |a: E2, b: E2| (a.0.add(b.0), a.1.add(b.1));
    // E[(p1,u1)*(p2,u2)] = (p1 p2, p1 u2 + u1 p2)
    let mul = |a: E2, b: E2| (a.0.mul(b.0), a.0.mul(b.1).add(a.1.mul(b.0)));
    let join = |a: E2, b: E2| (a.0.max(b.0), a.1.max(b.1));
    let meet = |a: E2, b: E2| (a.0.min(b.0), a.1.min(b.1));
    let sh = |a: E2| format!("{},{}", a.0.show(), a.1.show());
    let (a, b, c) = ((v[0], v[1]), (v[2], v[3]), (v[4], v[5]));
    // the order as documented by the code: strict in both components, or equal
    let ocmp = if a.0.lt(b.0) && a.1.lt(b.1) {
        "L"
    } else if b.0.lt(a.0) && b.1.lt(a.1) {
        "G"
    } else if a.0.eq(b.0) && a.1.eq(b.1) {
        "E"
    } else {
        "N"
    };
    let ochoose = if b.1.lt(a.1) { a } else { b };
    let want: Vec<String> = vec![
        sh(add(a, b)),
        sh(mul(a, b)),
        sh((a.0.sub(b.0), a.1.sub(b.1))),
        sh(add(add(a, b), c)),
        sh(add(add(a, b), c)),
        sh(mul(mul(a, b), c)),
        sh(mul(mul(a, b), c)),
        sh(mul(a, add(b, c))),
        sh(mul(a, add(b, c))),
        "1/1,0/1".into(),
        "0/1,0/1".into(),
        sh(join(a, b)),
        sh(meet(a, b)),
        sh(ochoose),
        sh(ochoose),
        ocmp.to_string(),
        b01(ocmp == "L" || ocmp == "E").to_string(),
        sh(join(join(a, b), c)),
        sh(join(join(a, b), c)),
        sh(meet(meet(a, b), c)),
        sh(meet(meet(a, b), c)),
        sh(a),
        sh(mul(a, b)),
        sh(a),
        sh(a),
        "0/1,0/1".into(),
    ];
    for i in 0..got.len() {
        check(fails, &format!("ExpectedUtility battery[{i}] a={} b={} c={}", sh(a), sh(b), sh(c)), &got[i], &want[i]);
    }
    if x <= y && !(x.join(&y) == y && BBSemiring::choose(&x, &y) == y && x.meet(&y) == x) {
        fails.push(format!("ExpectedUtility: {} <= {} but join/choose/meet do not return the larger/smaller", sh(a), sh(b)));
    }
    got.join(" ")
}

// ------------------------------------------------------------------------------------------
// RationalSemiring: the field is private, so values are built from one() by double-and-add
fn rat_of(n: u64) -> RationalSemiring {
    let mut acc = RationalSemiring::zero();
    for i in (0..64).rev() {
        acc = acc + acc;
        if (n >> i) & 1 == 1 {
            acc = acc + RationalSemiring::one();
        }
    }
    acc
}
fn rat_battery(a: u64, b: u64, c: u64, fails: &mut Vec<String>) -> String {
    let (x, y, z) = (rat_of(a), rat_of(b), rat_of(c));
    let (one, zero) = (RationalSemiring::one(), RationalSemiring::zero());
    let got: Vec<String> = vec![
        format!("{x}"),
        format!("{}", x + y),
        format!("{}", x * y),
        format!("{}", (x + y) + z),
        format!("{}", x + (y + z)),
        format!("{}", (x * y) * z),
        format!("{}", x * (y * z)),
        format!("{}", x * (y + z)),
        format!("{}", x * y + x * z),
        format!("{one}"),
        format!("{zero}"),
        format!("{}", y * x),
        format!("{}", x * one),
        format!("{}", x + zero),
        format!("{}", x * zero),
    ];
    let (a, b, c) = (a as u128, b as u128, c as u128);
    let want: Vec<u128> = vec![a, a + b, a * b, a + b + c, a + b + c, a * b * c, a * b * c, a * (b + c), a * (b + c), 1, 0, a * b, a, a, 0];
    for i in 0..got.len() {
        check(fails, &format!("RationalSemiring battery[{i}] a={a} b={b} c={c}"), &got[i], &format!("{}/1", want[i]));
    }
    got.join(" ")
}

// ------------------------------------------------------------------------------------------
// Polynomial<C>
struct PolyIn {
    len: usize,
    cs: Vec<i64>,
}
fn parse_poly(t: &[&str], i: &mut usize) -> PolyIn {
    let len: usize = t[*i].parse().unwrap();
    let k: usize = t[*i + 1].parse().unwrap();
    let cs = (0..k).map(|j| t[*i + 2 + j].parse().unwrap()).collect();
    *i += 2 + k;
    PolyIn { len, cs }
}
fn mk_poly<C: Semiring + Copy>(p: &PolyIn, conv: &dyn Fn(i64) -> C) -> Polynomial<C> {
    let mut arr = [C::zero(); MAX_COEFFS];
    for (i, c) in p.cs.iter().enumerate() {
        arr[i] = conv(*c);
    }
    Polynomial { coefficients: arr, len: p.len }
}
fn show_poly<C: Semiring + Copy>(p: &Polynomial<C>, sh: &dyn Fn(C) -> String) -> String {
    format!("{}:{}", p.len, p.coefficients.iter().map(|c| sh(*c)).collect::<Vec<_>>().join(","))
}
/// reference polynomial: plain integer coefficients, (len, coefficient array)
type RefPoly = (usize, Vec<i128>);
fn ref_norm(modulus: Option<i128>, v: i128) -> i128 {
    match modulus {
        Some(m) => v.rem_euclid(m),
        None => v,
    }
}
fn ref_add(m: Option<i128>, a: &RefPoly, b: &RefPoly) -> RefPoly {
    let l = a.0.max(b.0).min(MAX_COEFFS);
    let mut r = vec![0i128; MAX_COEFFS];
    for k in 0..l {
        r[k] = ref_norm(m, a.1[k] + b.1[k]);
    }
    (l, r)
}
/// product = convolution of the first len coefficients, truncated to MAX_COEFFS
fn ref_mul(m: Option<i128>, a: &RefPoly, b: &RefPoly) -> RefPoly {
    let mut r = vec![0i128; MAX_COEFFS];
    if a.0 == 0 || b.0 == 0 {
        return (0, r);
    }
    for k in 0..MAX_COEFFS {
        let mut s = 0i128;
        for i in 0..=k {
            let j = k - i;
            if i < a.0 && j < b.0 && i < MAX_COEFFS && j < MAX_COEFFS {
                s += a.1[i] * b.1[j];
            }
        }
        r[k] = ref_norm(m, s);
    }
    ((a.0 + b.0 - 1).min(MAX_COEFFS), r)
}
fn ref_show(ff: bool, p: &RefPoly) -> String {
    format!("{}:{}", p.0, p.1.iter().map(|c| if ff { format!("{c}") } else { format!("{c}/1") }).collect::<Vec<_>>().join(","))
}

fn poly_battery<C: Semiring + Copy + PartialEq>(
    ins: &[PolyIn],
    conv: &dyn Fn(i64) -> C,
    sh: &dyn Fn(C) -> String,
    ff: bool,
    fails: &mut Vec<String>,
    st: &mut Stats,
) -> String {
    let (x, y, z) = (mk_poly(&ins[0], conv), mk_poly(&ins[1], conv), mk_poly(&ins[2], conv));
    let (one, zero) = (Polynomial::<C>::one(), Polynomial::<C>::zero());
    let res: Vec<Polynomial<C>> = vec![
        x + y,
        x * y,
        (x + y) + z,
        x + (y + z),
        (x * y) * z,
        x * (y * z),
        x * (y + z),
        x * y + x * z,
        one * x,
        x + zero,
        x * zero,
        y * x,
        one,
        zero,
    ];
    let got: Vec<String> = res.iter().map(|p| show_poly(p, sh)).collect();
    // oracle (only for well-formed operands: len <= MAX and nothing stored beyond len)
    let wf = ins.iter().all(|p| p.len <= MAX_COEFFS && p.cs.len() <= p.len);
    if wf {
        let m = if ff { Some(11i128) } else { None };
        let rp = |p: &PolyIn| -> RefPoly {
            let mut v = vec![0i128; MAX_COEFFS];
            for (i, c) in p.cs.iter().enumerate() {
                v[i] = ref_norm(m, *c as i128);
            }
            (p.len, v)
        };
        let (a, b, c) = (rp(&ins[0]), rp(&ins[1]), rp(&ins[2]));
        let mut one_r = (1usize, vec![0i128; MAX_COEFFS]);
        one_r.1[0] = 1;
        let zero_r = (0usize, vec![0i128; MAX_COEFFS]);
        let abc = ref_mul(m, &ref_mul(m, &a, &b), &c);
        let want: Vec<RefPoly> = vec![
            ref_add(m, &a, &b),
            ref_mul(m, &a, &b),
            ref_add(m, &ref_add(m, &a, &b), &c),
            ref_add(m, &ref_add(m, &a, &b), &c),
            abc.clone(),
            abc,
            ref_mul(m, &a, &ref_add(m, &b, &c)),
            ref_mul(m, &a, &ref_add(m, &b, &c)),
            a.clone(),
            a.clone(),
            zero_r.clone(),
            ref_mul(m, &a, &b),
            one_r,
            zero_r,
        ];
        for i in 0..got.len() {
            check(fails, &format!("Polynomial battery[{i}] lens {} {} {}", ins[0].len, ins[1].len, ins[2].len), &got[i], &ref_show(ff, &want[i]));
        }
        // the laws on the implementation's own values (derived PartialEq: all 32 coefficients and len)
        if res[2] != res[3] || res[4] != res[5] || res[6] != res[7] || res[1] != res[11] || res[8] != x || res[9] != x || res[10] != zero {
            fails.push(format!("Polynomial: a semiring law fails on well-formed operands of lengths {} {} {}", ins[0].len, ins[1].len, ins[2].len));
        }
        if ins[0].len + ins[1].len > MAX_COEFFS + 1 {
            st.bump("poly_product_truncated");
        }
    } else {
        st.bump("poly_malformed_len");
    }
    got.join(" ")
}

// ------------------------------------------------------------------------------------------
pub fn run(case: &str, st: &mut Stats) -> Outcome {
    let t = toks(case);
    let mut fails = vec![];
    st.bump(&format!("type={}", t[0]));
    let frs = |from: usize, k: usize| -> Vec<Fr> { (0..k).map(|i| Fr::parse(t[from + i])).collect() };
    let nontriv_fr = |v: &[Fr]| v.iter().filter(|f| !(f.0 == 0 || (f.0 == 1 && f.1 == 1))).count() >= 2;
    let (result, nontrivial) = match t[0] {
        "ff" => {
            let p: u128 = t[1].parse().unwrap();
            let (a, b, c): (u128, u128, u128) = (t[2].parse().unwrap(), t[3].parse().unwrap(), t[4].parse().unwrap());
            st.bump(&format!("ff_P={p}"));
            match ff_dispatch(p, a, b, c, &mut fails, st) {
                Some(r) => r,
                None => ("BADP".to_string(), false),
            }
        }
        "bool" => {
            let v: Vec<bool> = (1..4).map(|i| t[i] == "1").collect();
            let (x, y, z) = (BooleanSemiring(v[0]), BooleanSemiring(v[1]), BooleanSemiring(v[2]));
            let (one, zero) = (BooleanSemiring::one(), BooleanSemiring::zero());
            let got = vec![x + y, x * y, (x + y) + z, x + (y + z), (x * y) * z, x * (y * z), x * (y + z), x * y + x * z, one, zero, y * x, y + x, x * one, x + zero, x * zero];
            let (a, b, c) = (v[0], v[1], v[2]);
            let want = vec![a | b, a & b, a | b | c, a | b | c, a & b & c, a & b & c, a & (b | c), a & (b | c), true, false, a & b, a | b, a, a, false];
            for i in 0..got.len() {
                if got[i].0 != want[i] {
                    fails.push(format!("BooleanSemiring battery[{i}] on {a} {b} {c}: {} vs truth table {}", got[i].0, want[i]));
                }
            }
            (got.iter().map(|g| b01(g.0)).collect::<Vec<_>>().join(" "), true)
        }
        "real" => {
            let v = frs(1, 3);
            (real_battery(v[0], v[1], v[2], &mut fails), nontriv_fr(&v))
        }
        "cx" => {
            let v = frs(1, 6);
            (cx_battery(&v, &mut fails), nontriv_fr(&v))
        }
        "eu" => {
            let v = frs(1, 6);
            (eu_battery(&v, &mut fails, st), nontriv_fr(&v))
        }
        "rat" => {
            let (a, b, c): (u64, u64, u64) = (t[1].parse().unwrap(), t[2].parse().unwrap(), t[3].parse().unwrap());
            (rat_battery(a, b, c, &mut fails), [a, b, c].iter().filter(|v| **v > 1).count() >= 2)
        }
        "poly" => {
            let mut i = 2;
            let ins = vec![parse_poly(&t, &mut i), parse_poly(&t, &mut i), parse_poly(&t, &mut i)];
            let nt = ins.iter().filter(|p| p.len >= 2).count() >= 2;
            for p in &ins {
                st.bump(&format!("poly_len={}", if p.len <= 3 { p.len.to_string() } else if p.len >= 31 { format!("{}", p.len) } else { "4..30".into() }));
            }
            let r = match t[1] {
                "real" => poly_battery::<RealSemiring>(&ins, &|c| RealSemiring(c as f64), &|c| f64_exact(c.0), false, &mut fails, st),
                "ff11" => poly_battery::<FiniteField<11>>(&ins, &|c| FiniteField::<11>::new(c as u128), &|c| c.value().to_string(), true, &mut fails, st),
                _ => panic!("bad poly coefficient type"),
            };
            (r, nt)
        }
        _ => panic!("bad case"),
    };
    Outcome { result, fails, nontrivial }
}
