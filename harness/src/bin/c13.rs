//! C13 semiring laws: drive the real weight types of rsdd::util::semirings on generated triples.
//! One case = one weight type + three operands; the result line is a fixed battery of
//! expressions over them (see the `*_battery` functions; the OCaml driver evaluates the same
//! battery on the extracted Coq model).  All numbers are printed exactly: residues as decimal
//! integers, f64 values as reduced fractions n/d obtained from the bit pattern, never a decimal
//! expansion.
//!
//! cases:
//!   ff <P> <a> <b> <c>                  raw u128 arguments of FiniteField::<P>::new
//!   bool <a> <b> <c>                    0/1
//!   real <a> <b> <c>                    dyadic fractions n/d
//!   cx <are> <aim> <bre> <bim> <cre> <cim>
//!   eu <ap> <au> <bp> <bu> <cp> <cu>
//!   rat <a> <b> <c>                     naturals (the only values constructible through the API)
//!   poly (real|ff11) <len> <k> <c_0..c_{k-1}>  x3    integer coefficients, rest of the array zero
//!   realw <mask> <a> <b> <c>            wide-magnitude f64 operands, each written <m>p<e> = m * 2^e
//!   cxw   <mask> <6 components>         (m a decimal integer, |m| < 2^53); <mask> has one 0/1 per battery
//!   euw   <mask> <6 components>         entry: 1 = every exact value occurring in the textbook evaluation
//!                                       of that entry (operands, each real product, each sum, the result)
//!                                       is representable in f64.  Only entries marked 1 are printed
//!                                       (the others as ~) and compared; the harness recomputes the mask
//!                                       with exact dyadic arithmetic and rejects a case that claims more.
//! FiniteField<P> is instantiated for the exported primes, 2,3,5,7,11 and the further moduli EXTRA
//! (the type is generic in P; C13_ff_any_modulus covers every 1 < P <= 2^127).
//! The oracle recomputes every battery entry with independent exact arithmetic (256-bit
//! shift-subtract modular product, i128 fractions, integer convolution) and checks the laws
//! on the implementation's own results.
use rsdd::constants::primes;
use rsdd::util::semirings::*;
use rsdd_verif_harness::*;

pub const PROP: Prop = Prop { gen, run, panic_ok: never };

fn main() {
    run_main(PROP)
}

const EXPORTED: [u128; 7] = [
    primes::U32_TINY,
    primes::U32_SMALL,
    primes::U64_LARGEST,
    primes::U128_LARGE_1,
    primes::U128_LARGE_2,
    primes::U128_LARGE_3,
    primes::U128_LARGE_4,
];
const SMALL: [u128; 5] = [2, 3, 5, 7, 11];
// further moduli of the generic FiniteField<const P: u128> (not exported constants): Mersenne primes
// below and above 2^96, the first prime above 2^96, a composite just below 2^127 and the largest
// modulus admitted by the model's side condition 2P <= 2^128
const M61: u128 = (1u128 << 61) - 1;
const M89: u128 = (1u128 << 89) - 1;
const P96: u128 = (1u128 << 96) + 61;
const M107: u128 = (1u128 << 107) - 1;
const M127: u128 = (1u128 << 127) - 1;
const C127: u128 = (1u128 << 127) - 3; // = 5 * 34028236692093846346337460743176821145
const T127: u128 = 1u128 << 127;
const EXTRA: [u128; 7] = [M61, M89, P96, M107, M127, C127, T127];

// ------------------------------------------------------------------------------------------
// generation
fn boundary(p: u128) -> [u128; 8] {
    [0, 1, 2, p / 2 - 1, p / 2, p / 2 + 1, p - 2, p - 1]
}

fn r128(rng: &mut Rng) -> u128 {
    ((rng.next() as u128) << 64) | rng.next() as u128
}

fn dyadic(rng: &mut Rng, big: bool) -> String {
    let b: i64 = if big { 4096 } else { 8 };
    let n = rng.below((2 * b + 1) as u64) as i64 - b;
    let k = if rng.chance(1, 3) { 0 } else { rng.below(if big { 7 } else { 3 }) };
    format!("{}/{}", n, 1u64 << k)
}

fn small_dy(rng: &mut Rng) -> String {
    // few distinct values: ties and equal components are common
    (*rng.pick(&["0/1", "1/1", "1/2", "2/1", "-1/1", "3/4", "3/1", "-1/2"])).to_string()
}

fn gen_poly_operand(rng: &mut Rng, ff: bool, malformed: bool) -> String {
    let len = match rng.below(10) {
        0 => 0,
        1 => 1,
        2 => 2,
        3 => 3,
        4 | 5 => 31,
        6 | 7 => 32,
        _ => rng.range(0, 32),
    };
    let (len, k) = if malformed {
        // len field inconsistent with the array contents (public fields)
        match rng.below(3) {
            0 => (len, rng.range(len, 32)),           // garbage beyond len
            1 => (*rng.pick(&[33usize, 40]), 32),     // len beyond the array
            _ => (len, len / 2),                      // trailing zeros inside len
        }
    } else {
        (len, len)
    };
    let mut s = format!("{len} {k}");
    let wide = rng.chance(1, 4);
    for _ in 0..k {
        let c: i64 = if ff {
            rng.below(11) as i64
        } else if wide {
            rng.below(17) as i64 - 8
        } else {
            rng.below(3) as i64
        };
        s.push_str(&format!(" {c}"));
    }
    s
}

/// one component of a wide-magnitude operand: 0, +-1, +-2^k, (small integer) * 2^k, or a plain
/// integer of 20..31 bits (products near 2^53..2^62)
fn wide_comp(rng: &mut Rng, fam: u64, kmax: i32, neg_exp: bool) -> Dy {
    let sign = |rng: &mut Rng| if rng.chance(1, 3) { -1i128 } else { 1 };
    let expo = |rng: &mut Rng| {
        let k = match rng.below(4) {
            0 => kmax,
            1 => rng.below(4) as i32,
            _ => rng.below(kmax as u64 + 1) as i32,
        };
        if neg_exp && rng.coin() {
            -k
        } else {
            k
        }
    };
    match fam {
        // 0, +-1, +-2^k
        0 => match rng.below(6) {
            0 => DY0,
            1 => Dy { m: sign(rng), e: 0 },
            _ => Dy { m: sign(rng), e: expo(rng) },
        },
        // small integer * 2^k
        1 => {
            let m = if rng.coin() { rng.below(16) as i128 } else { rng.below(1024) as i128 };
            Dy::norm(sign(rng) * m, expo(rng))
        }
        // integers of 20..31 bits (capped by the current size)
        2 => {
            let bits = (kmax.max(20) as u64).min(20 + rng.below(12));
            Dy::norm(sign(rng) * (rng.below(1u64 << bits) as i128 | 1i128 << (bits - 1)), 0)
        }
        // very few distinct values: ties, repeated components, both extremes
        _ => *rng.pick(&[DY0, Dy { m: 1, e: 0 }, Dy { m: -1, e: 0 }, Dy { m: 1, e: kmax }, Dy { m: -1, e: kmax }, Dy { m: 1, e: kmax / 2 }, Dy { m: 1, e: -kmax }, Dy { m: 3, e: kmax - 1 }]),
    }
}

/// a wide-magnitude case of the given type with its fairness mask; of a few candidates the one
/// with the most battery entries whose exact evaluation stays representable (plus a bonus for
/// an exponent spread above 30 bits) is kept
fn gen_wide(rng: &mut Rng, ty: &str, kmax: i32) -> String {
    let k = if ty == "realw" { 3 } else { 6 };
    let mut best: Option<(usize, String)> = None;
    for _ in 0..4 {
        let fam = rng.below(5); // 4 = mixed per component
        let neg_exp = rng.chance(1, 3);
        let v: Vec<Dy> = (0..k)
            .map(|_| {
                let f = if fam == 4 { rng.below(4) } else { fam };
                wide_comp(rng, f, kmax, neg_exp)
            })
            .collect();
        let want = match ty {
            "realw" => realw_want(&v),
            "cxw" => cxw_want(&v),
            _ => euw_want(&v),
        };
        let mask: String = want.iter().map(|w| if w.is_some() { '1' } else { '0' }).collect();
        // prefer many fair entries, and operands whose magnitudes are far apart
        let score = want.iter().filter(|w| w.is_some()).count() + if spread(&v) > 30 { want.len() / 2 } else { 0 };
        let case = format!("{ty} {mask} {}", v.iter().map(|d| d.show()).collect::<Vec<_>>().join(" "));
        if best.as_ref().map_or(true, |b| score > b.0) {
            best = Some((score, case));
        }
    }
    best.unwrap().1
}

pub fn gen(rng: &mut Rng, idx: usize, n: usize, thorough: bool) -> String {
    let mut i = idx;
    // A: every triple of residues of the small primes
    for p in SMALL {
        let q = p as usize;
        if i < q * q * q {
            return format!("ff {p} {} {} {}", i / (q * q), (i / q) % q, i % q);
        }
        i -= q * q * q;
    }
    // B: all Boolean triples
    if i < 8 {
        return format!("bool {} {} {}", i >> 2 & 1, i >> 1 & 1, i & 1);
    }
    i -= 8;
    // C: every pair of boundary residues of every exported prime (third operand a random boundary)
    if i < 7 * 64 {
        let p = EXPORTED[i / 64];
        let b = boundary(p);
        return format!("ff {p} {} {} {}", b[(i / 8) % 8], b[i % 8], b[rng.below(8) as usize]);
    }
    i -= 7 * 64;
    // C2: the same for the further moduli of the generic type
    if i < 7 * 64 {
        let p = EXTRA[i / 64];
        let b = boundary(p);
        return format!("ff {p} {} {} {}", b[(i / 8) % 8], b[i % 8], b[rng.below(8) as usize]);
    }
    i -= 7 * 64;
    // D (thorough): every triple of boundary residues
    if thorough {
        if i < 14 * 512 {
            let p = if i < 7 * 512 { EXPORTED[i / 512] } else { EXTRA[i / 512 - 7] };
            let b = boundary(p);
            return format!("ff {p} {} {} {}", b[(i / 64) % 8], b[(i / 8) % 8], b[i % 8]);
        }
    }
    // E: random, sizes growing with the index
    let late = idx * 2 > n;
    let prefix = 1834 + 8 + 14 * 64 + if thorough { 14 * 512 } else { 0 };
    // largest binary exponent of the wide-magnitude f64 streams: 8 .. 60
    // (reached half way through the random part)
    let kmax = (8 + 104 * idx.saturating_sub(prefix) / n.saturating_sub(prefix).max(1)).min(60) as i32;
    match rng.below(26) {
        0..=6 => {
            let p = if rng.chance(1, 8) {
                *rng.pick(&SMALL)
            } else if rng.chance(2, 5) {
                *rng.pick(&EXTRA)
            } else {
                *rng.pick(&EXPORTED)
            };
            let mut v = [0u128; 3];
            for x in v.iter_mut() {
                *x = match rng.below(9) {
                    0 => *rng.pick(&boundary(p.max(4))) % p.max(1),
                    1 => r128(rng),                                   // raw, reduced by new()
                    2 => u128::MAX - rng.below(4) as u128,            // top of the u128 range
                    3 => p + rng.below(3) as u128,                    // just above the modulus
                    // around a limb / word boundary: 2^k - 1, 2^k, 2^k + 1 for k in 32,64,96 and random k
                    4 => {
                        let k = if rng.coin() { *rng.pick(&[32u32, 64, 96]) } else { rng.range(1, 127) as u32 };
                        ((1u128 << k) + rng.below(3) as u128 - 1) % p
                    }
                    _ => r128(rng) % p,
                };
            }
            format!("ff {p} {} {} {}", v[0], v[1], v[2])
        }
        20..=21 => gen_wide(rng, "realw", kmax),
        22..=24 => gen_wide(rng, "cxw", kmax),
        25 => gen_wide(rng, "euw", kmax),
        7..=9 => format!("real {} {} {}", dyadic(rng, late), dyadic(rng, late), dyadic(rng, late)),
        10..=12 => {
            let mut s = "eu".to_string();
            let tie = rng.chance(1, 2);
            for _ in 0..6 {
                s.push(' ');
                s.push_str(&if tie { small_dy(rng) } else { dyadic(rng, late) });
            }
            s
        }
        13..=14 => {
            let mut s = "cx".to_string();
            for _ in 0..6 {
                s.push(' ');
                s.push_str(&dyadic(rng, late));
            }
            s
        }
        15 => {
            let m = if late { 1 << 20 } else { 12 };
            format!("rat {} {} {}", rng.below(m), rng.below(m), rng.below(m))
        }
        16 => format!("bool {} {} {}", rng.below(2), rng.below(2), rng.below(2)),
        _ => {
            let ff = rng.chance(1, 3);
            let malformed = rng.chance(1, 10);
            format!(
                "poly {} {} {} {}",
                if ff { "ff11" } else { "real" },
                gen_poly_operand(rng, ff, malformed),
                gen_poly_operand(rng, ff, malformed),
                gen_poly_operand(rng, ff, malformed)
            )
        }
    }
}

// ------------------------------------------------------------------------------------------
// independent exact arithmetic for the oracle

/// 128x128 -> 256 bit product (hi, lo) by 64-bit limbs
fn mul_wide(a: u128, b: u128) -> (u128, u128) {
    const M: u128 = (1u128 << 64) - 1;
    let (a1, a0) = (a >> 64, a & M);
    let (b1, b0) = (b >> 64, b & M);
    let (p00, p01, p10, p11) = (a0 * b0, a0 * b1, a1 * b0, a1 * b1);
    let mid = (p00 >> 64) + (p01 & M) + (p10 & M);
    let lo = (p00 & M) | ((mid & M) << 64);
    let hi = p11 + (p01 >> 64) + (p10 >> 64) + (mid >> 64);
    (hi, lo)
}

/// (hi:lo) mod p by shift-subtract; needs p <= 2^127
fn mod_wide(hi: u128, lo: u128, p: u128) -> u128 {
    let mut r: u128 = 0;
    for i in (0..256).rev() {
        let bit = if i >= 128 { (hi >> (i - 128)) & 1 } else { (lo >> i) & 1 };
        r = (r << 1) | bit;
        if r >= p {
            r -= p;
        }
    }
    r
}

#[derive(Clone, Copy, PartialEq, Debug)]
struct Zp(u128, u128); // (value, modulus)
impl Zp {
    fn add(self, o: Zp) -> Zp {
        let s = self.0 + o.0; // < 2^128 because p <= 2^127
        Zp(if s >= self.1 { s - self.1 } else { s }, self.1)
    }
    fn mul(self, o: Zp) -> Zp {
        let (h, l) = mul_wide(self.0, o.0);
        Zp(mod_wide(h, l, self.1), self.1)
    }
    fn sub(self, o: Zp) -> Zp {
        // the unique r < p with r + o = self (mod p)
        Zp(if self.0 >= o.0 { self.0 - o.0 } else { self.1 - o.0 + self.0 }, self.1)
    }
}

/// exact fraction n/d with d > 0 (i128; the generated values keep everything far below 2^100)
#[derive(Clone, Copy, Debug)]
struct Fr(i128, i128);
fn gcd(a: i128, b: i128) -> i128 {
    if b == 0 {
        a.abs()
    } else {
        gcd(b, a % b)
    }
}
impl Fr {
    fn norm(self) -> Fr {
        let g = gcd(self.0, self.1).max(1);
        Fr(self.0 / g, self.1 / g)
    }
    fn add(self, o: Fr) -> Fr {
        Fr(self.0 * o.1 + o.0 * self.1, self.1 * o.1).norm()
    }
    fn sub(self, o: Fr) -> Fr {
        Fr(self.0 * o.1 - o.0 * self.1, self.1 * o.1).norm()
    }
    fn mul(self, o: Fr) -> Fr {
        Fr(self.0 * o.0, self.1 * o.1).norm()
    }
    fn lt(self, o: Fr) -> bool {
        self.0 * o.1 < o.0 * self.1
    }
    fn eq(self, o: Fr) -> bool {
        self.0 * o.1 == o.0 * self.1
    }
    fn max(self, o: Fr) -> Fr {
        if self.lt(o) {
            o
        } else {
            self
        }
    }
    fn min(self, o: Fr) -> Fr {
        if o.lt(self) {
            o
        } else {
            self
        }
    }
    fn show(self) -> String {
        let f = self.norm();
        format!("{}/{}", f.0, f.1)
    }
    fn parse(s: &str) -> Fr {
        let (n, d) = s.split_once('/').unwrap_or((s, "1"));
        Fr(n.parse().unwrap(), d.parse().unwrap()).norm()
    }
    fn to_f64(self) -> f64 {
        self.0 as f64 / self.1 as f64 // exact: small numerator, power-of-two denominator
    }
}

/// the exact value of a finite f64 as a reduced fraction, from its bit pattern
fn f64_exact(x: f64) -> String {
    if x.is_nan() {
        return "NAN".into();
    }
    if x.is_infinite() {
        return "INF".into();
    }
    let bits = x.to_bits();
    let neg = bits >> 63 == 1;
    let e = ((bits >> 52) & 0x7ff) as i32;
    let frac = (bits & ((1u64 << 52) - 1)) as i128;
    let (mut m, mut ex) = if e == 0 { (frac, -1074) } else { (frac | (1i128 << 52), e - 1075) };
    if m == 0 {
        return "0/1".into();
    }
    while m % 2 == 0 {
        m /= 2;
        ex += 1;
    }
    if neg {
        m = -m;
    }
    if ex >= 0 {
        if ex > 60 {
            return "HUGE".into();
        }
        format!("{}/1", m << ex)
    } else {
        if ex < -100 {
            return "TINY".into();
        }
        format!("{}/{}", m, 1i128 << (-ex))
    }
}

/// exact dyadic number m * 2^e (m odd, or m = 0 and e = 0): the values of the wide-magnitude
/// streams.  `add`/`mul` take f64-representable operands (|m| < 2^53) and return None when the
/// exact result is not representable in f64, so i128 never overflows (see the bounds below).
#[derive(Clone, Copy, PartialEq, Debug)]
struct Dy {
    m: i128,
    e: i32,
}
const DY0: Dy = Dy { m: 0, e: 0 };
const DY1: Dy = Dy { m: 1, e: 0 };
impl Dy {
    fn norm(mut m: i128, mut e: i32) -> Dy {
        if m == 0 {
            return DY0;
        }
        let t = m.trailing_zeros() as i32;
        m >>= t; // exact: the t low bits are zero (also for negative m)
        e += t;
        Dy { m, e }
    }
    /// representable as a normal f64, with a wide safety margin on the exponent
    fn rep(self) -> bool {
        self.m.unsigned_abs() < (1u128 << 53) && (-900..=900).contains(&self.e)
    }
    fn chk(self) -> Option<Dy> {
        if self.rep() {
            Some(self)
        } else {
            None
        }
    }
    fn mul(self, o: Dy) -> Option<Dy> {
        assert!(self.rep() && o.rep());
        Dy::norm(self.m * o.m, self.e + o.e).chk() // |m1 m2| < 2^106
    }
    fn add(self, o: Dy) -> Option<Dy> {
        assert!(self.rep() && o.rep());
        if self.m == 0 {
            return Some(o);
        }
        if o.m == 0 {
            return Some(self);
        }
        let (hi, lo) = if self.e >= o.e { (self, o) } else { (o, self) };
        let d = hi.e - lo.e;
        if d > 70 {
            // hi.m 2^d + lo.m is odd and at least 2^d - 2^53 >= 2^53 in magnitude: 54 or more significant bits
            return None;
        }
        Dy::norm((hi.m << d) + lo.m, lo.e).chk() // |hi.m 2^d| < 2^123
    }
    fn neg(self) -> Dy {
        Dy { m: -self.m, e: self.e }
    }
    fn sub(self, o: Dy) -> Option<Dy> {
        self.add(o.neg())
    }
    fn cmp(self, o: Dy) -> std::cmp::Ordering {
        use std::cmp::Ordering::*;
        if self.m == 0 || o.m == 0 || (self.m < 0) != (o.m < 0) {
            return self.m.signum().cmp(&o.m.signum());
        }
        let (hi_is_self, hi, lo) = if self.e >= o.e { (true, self, o) } else { (false, o, self) };
        let d = hi.e - lo.e;
        if d > 70 {
            // |hi| >= 2^71 |unit| > |lo|: the one with the larger exponent dominates
            return if hi_is_self == (hi.m > 0) { Greater } else { Less };
        }
        let (a, b) = if hi_is_self { (hi.m << d, lo.m) } else { (lo.m, hi.m << d) };
        a.cmp(&b)
    }
    fn lt(self, o: Dy) -> bool {
        self.cmp(o) == std::cmp::Ordering::Less
    }
    fn max(self, o: Dy) -> Dy {
        if self.lt(o) {
            o
        } else {
            self
        }
    }
    fn min(self, o: Dy) -> Dy {
        if o.lt(self) {
            o
        } else {
            self
        }
    }
    fn show(self) -> String {
        format!("{}p{}", self.m, self.e)
    }
    fn parse(s: &str) -> Dy {
        let (m, e) = s.split_once('p').expect("m p e");
        let d = Dy::norm(m.parse().unwrap(), e.parse().unwrap());
        assert!(d.rep(), "operand not representable in f64");
        d
    }
    /// exact: |m| < 2^53 converts exactly, 2^e is built from its bit pattern, the product is a normal f64
    fn to_f64(self) -> f64 {
        assert!(self.rep());
        (self.m as f64) * f64::from_bits(((self.e + 1023) as u64) << 52)
    }
}

/// the exact value of a finite f64 in the form m p e (m odd), from its bit pattern
fn f64_dy(x: f64) -> String {
    if x.is_nan() {
        return "NAN".into();
    }
    if x.is_infinite() {
        return "INF".into();
    }
    let bits = x.to_bits();
    let neg = bits >> 63 == 1;
    let e = ((bits >> 52) & 0x7ff) as i32;
    let frac = (bits & ((1u64 << 52) - 1)) as i128;
    let (m, ex) = if e == 0 { (frac, -1074) } else { (frac | (1i128 << 52), e - 1075) };
    Dy::norm(if neg { -m } else { m }, ex).show()
}

fn check(fails: &mut Vec<String>, what: &str, got: &str, want: &str) {
    if got != want {
        fails.push(format!("{what}: implementation {got}, exact arithmetic {want}"));
    }
}

// ------------------------------------------------------------------------------------------
// FiniteField
fn ff_battery<const P: u128>(a: u128, b: u128, c: u128, fails: &mut Vec<String>, st: &mut Stats) -> (String, bool) {
    type F<const P: u128> = FiniteField<P>;
    let (x, y, z) = (F::<P>::new(a), F::<P>::new(b), F::<P>::new(c));
    let (one, zero) = (F::<P>::one(), F::<P>::zero());
    let got: Vec<u128> = vec![
        x.value(),
        y.value(),
        z.value(),
        (x + y).value(),
        (x * y).value(),
        (x - y).value(),
        (y - x).value(),
        x.negate().value(),
        ((x + y) + z).value(),
        (x + (y + z)).value(),
        ((x * y) * z).value(),
        (x * (y * z)).value(),
        (x * (y + z)).value(),
        (x * y + x * z).value(),
        ((x + y) - y).value(),
        ((x - y) + y).value(),
        one.value(),
        zero.value(),
        (x * one).value(),
        (x + zero).value(),
        (x * zero).value(),
        (y * x).value(),
        (y + x).value(),
        ((y + z) * x).value(),
    ];
    // oracle
    let (ox, oy, oz) = (Zp(a % P, P), Zp(b % P, P), Zp(c % P, P));
    let (o1, o0) = (Zp(1 % P, P), Zp(0, P));
    let want: Vec<Zp> = vec![
        ox,
        oy,
        oz,
        ox.add(oy),
        ox.mul(oy),
        ox.sub(oy),
        oy.sub(ox),
        o1.sub(ox),
        ox.add(oy).add(oz),
        ox.add(oy).add(oz),
        ox.mul(oy).mul(oz),
        ox.mul(oy).mul(oz),
        ox.mul(oy.add(oz)),
        ox.mul(oy.add(oz)),
        ox,
        ox,
        o1,
        o0,
        ox,
        ox,
        o0,
        ox.mul(oy),
        ox.add(oy),
        ox.mul(oy.add(oz)),
    ];
    const NAMES: [&str; 24] = [
        "new(a)", "new(b)", "new(c)", "x+y", "x*y", "x-y", "y-x", "negate(x)=1-x", "(x+y)+z", "x+(y+z)", "(x*y)*z",
        "x*(y*z)", "x*(y+z)", "x*y+x*z", "(x+y)-y", "(x-y)+y", "one", "zero", "x*one", "x+zero", "x*zero", "y*x", "y+x",
        "(y+z)*x",
    ];
    for i in 0..got.len() {
        if got[i] != want[i].0 {
            fails.push(format!("FiniteField<{P}> {} with x={} y={} z={}: implementation {}, integer arithmetic mod P {}", NAMES[i], ox.0, oy.0, oz.0, got[i], want[i].0));
        }
        if got[i] >= P {
            fails.push(format!("FiniteField<{P}> {}: value {} is not a residue", NAMES[i], got[i]));
        }
    }
    // independent cross-check of the 256-bit oracle itself on a second route: (x*y) + (P-x)*y = 0
    let back = ox.mul(oy).add(Zp((P - ox.0) % P, P).mul(oy));
    if back.0 != 0 {
        fails.push(format!("oracle self-check failed for P={P} x={} y={}", ox.0, oy.0));
    }
    if ox.0.checked_mul(oy.0).is_none() {
        st.bump("ff_product_exceeds_u128");
    }
    if a >= P || b >= P || c >= P {
        st.bump("ff_new_reduces");
    }
    let triv = |v: u128| v <= 1;
    let nontrivial = [ox.0, oy.0, oz.0].iter().filter(|v| !triv(**v)).count() >= 2;
    (got.iter().map(|v| v.to_string()).collect::<Vec<_>>().join(" "), nontrivial)
}

fn ff_dispatch(p: u128, a: u128, b: u128, c: u128, fails: &mut Vec<String>, st: &mut Stats) -> Option<(String, bool)> {
    macro_rules! d {
        ($($c:expr),*) => { $( if p == $c { return Some(ff_battery::<{ $c }>(a, b, c, fails, st)); } )* };
    }
    d!(
        primes::U32_TINY,
        primes::U32_SMALL,
        primes::U64_LARGEST,
        primes::U128_LARGE_1,
        primes::U128_LARGE_2,
        primes::U128_LARGE_3,
        primes::U128_LARGE_4,
        M61,
        M89,
        P96,
        M107,
        M127,
        C127,
        T127,
        2,
        3,
        5,
        7,
        11
    );
    None
}

// ------------------------------------------------------------------------------------------
// f64-based types
fn rs(f: Fr) -> RealSemiring {
    RealSemiring(f.to_f64())
}
fn b01(b: bool) -> &'static str {
    if b {
        "1"
    } else {
        "0"
    }
}

/// the RealSemiring battery on the implementation; `sh` prints an f64 exactly
fn real_impl(x: RealSemiring, y: RealSemiring, z: RealSemiring, sh: &dyn Fn(f64) -> String) -> Vec<String> {
    let show_r = |v: RealSemiring| sh(v.0);
    let (one, zero) = (RealSemiring::one(), RealSemiring::zero());
    vec![
        show_r(x + y),
        show_r(x * y),
        show_r(x - y),
        show_r((x + y) + z),
        show_r(x + (y + z)),
        show_r((x * y) * z),
        show_r(x * (y * z)),
        show_r(x * (y + z)),
        show_r(x * y + x * z),
        show_r(one),
        show_r(zero),
        show_r(x.join(&y)),
        show_r(x.meet(&y)),
        show_r(BBSemiring::choose(&x, &y)),
        show_r(BBRing::choose(&x, &y)),
        b01(x <= y).to_string(),
        show_r(x.join(&y).join(&z)),
        show_r(x.join(&y.join(&z))),
        show_r(x.meet(&y).meet(&z)),
        show_r(x.meet(&y.meet(&z))),
        show_r((x + y) - y),
        show_r(y * x),
        show_r(x * one),
        show_r(x + zero),
        show_r(x * zero),
    ]
}

fn real_battery(a: Fr, b: Fr, c: Fr, fails: &mut Vec<String>) -> String {
    let (x, y, z) = (rs(a), rs(b), rs(c));
    let got = real_impl(x, y, z, &f64_exact);
    let want: Vec<String> = vec![
        a.add(b).show(),
        a.mul(b).show(),
        a.sub(b).show(),
        a.add(b).add(c).show(),
        a.add(b).add(c).show(),
        a.mul(b).mul(c).show(),
        a.mul(b).mul(c).show(),
        a.mul(b.add(c)).show(),
        a.mul(b.add(c)).show(),
        "1/1".into(),
        "0/1".into(),
        a.max(b).show(),
        a.min(b).show(),
        a.max(b).show(),
        a.max(b).show(),
        b01(a.lt(b) || a.eq(b)).to_string(),
        a.max(b).max(c).show(),
        a.max(b).max(c).show(),
        a.min(b).min(c).show(),
        a.min(b).min(c).show(),
        a.show(),
        a.mul(b).show(),
        a.show(),
        a.show(),
        "0/1".into(),
    ];
    for i in 0..got.len() {
        check(fails, &format!("RealSemiring battery[{i}] a={} b={} c={}", a.show(), b.show(), c.show()), &got[i], &want[i]);
    }
    // order law as stated: le a b -> join = choose = b, meet = a
    if x <= y && !(x.join(&y) == y && BBSemiring::choose(&x, &y) == y && x.meet(&y) == x) {
        fails.push(format!("RealSemiring: {} <= {} but join/choose/meet do not return the larger/smaller", a.show(), b.show()));
    }
    got.join(" ")
}

/// the Complex battery on the implementation (`wide`: two more entries, used by the cxw stream)
fn cx_impl(x: Complex, y: Complex, z: Complex, sh: &dyn Fn(f64) -> String, wide: bool) -> Vec<String> {
    let show_cx = |v: Complex| format!("{},{}", sh(v.re), sh(v.im));
    let (one, zero) = (Complex::one(), Complex::zero());
    let mut got: Vec<String> = vec![
        show_cx(x + y),
        show_cx(x * y),
        show_cx(x - y),
        show_cx((x + y) + z),
        show_cx(x + (y + z)),
        show_cx((x * y) * z),
        show_cx(x * (y * z)),
        show_cx(x * (y + z)),
        show_cx(x * y + x * z),
        show_cx(one),
        show_cx(zero),
        show_cx(y * x),
        show_cx(x * one),
        show_cx(x + zero),
        show_cx(x * zero),
        show_cx((x + y) - y),
    ];
    if wide {
        got.push(show_cx(one * x));
        got.push(show_cx((y + z) * x));
    }
    got
}

fn cx_battery(v: &[Fr], fails: &mut Vec<String>) -> String {
    let mk = |r: Fr, i: Fr| Complex { re: r.to_f64(), im: i.to_f64() };
    let (x, y, z) = (mk(v[0], v[1]), mk(v[2], v[3]), mk(v[4], v[5]));
    let got = cx_impl(x, y, z, &f64_exact, false);
    type C2 = (Fr, Fr);
    let add = |a: C2, b: C2| (a.0.add(b.0), a.1.add(b.1));
    let sub = |a: C2, b: C2| (a.0.sub(b.0), a.1.sub(b.1));
    let mul = |a: C2, b: C2| (a.0.mul(b.0).sub(a.1.mul(b.1)), a.0.mul(b.1).add(a.1.mul(b.0)));
    let sh = |a: C2| format!("{},{}", a.0.show(), a.1.show());
    let (a, b, c) = ((v[0], v[1]), (v[2], v[3]), (v[4], v[5]));
    let want: Vec<String> = vec![
        sh(add(a, b)),
        sh(mul(a, b)),
        sh(sub(a, b)),
        sh(add(add(a, b), c)),
        sh(add(add(a, b), c)),
        sh(mul(mul(a, b), c)),
        sh(mul(mul(a, b), c)),
        sh(mul(a, add(b, c))),
        sh(mul(a, add(b, c))),
        "1/1,0/1".into(),
        "0/1,0/1".into(),
        sh(mul(a, b)),
        sh(a),
        sh(a),
        "0/1,0/1".into(),
        sh(a),
    ];
    for i in 0..got.len() {
        check(fails, &format!("Complex battery[{i}] a={} b={} c={}", sh(a), sh(b), sh(c)), &got[i], &want[i]);
    }
    got.join(" ")
}

/// the ExpectedUtility battery on the implementation (`wide`: two more entries, used by the euw stream)
fn eu_impl(x: ExpectedUtility, y: ExpectedUtility, z: ExpectedUtility, sh: &dyn Fn(f64) -> String, wide: bool, st: &mut Stats) -> Vec<String> {
    let show_eu = |v: ExpectedUtility| format!("{},{}", sh(v.0), sh(v.1));
    let (one, zero) = (ExpectedUtility::one(), ExpectedUtility::zero());
    let cmp = match x.partial_cmp(&y) {
        Some(std::cmp::Ordering::Less) => "L",
        Some(std::cmp::Ordering::Greater) => "G",
        Some(std::cmp::Ordering::Equal) => "E",
        None => "N",
    };
    st.bump(&format!("eu_partial_cmp={cmp}"));
    let mut got: Vec<String> = vec![
        show_eu(x + y),
        show_eu(x * y),
        show_eu(x - y),
        show_eu((x + y) + z),
        show_eu(x + (y + z)),
        show_eu((x * y) * z),
        show_eu(x * (y * z)),
        show_eu(x * (y + z)),
        show_eu(x * y + x * z),
        show_eu(one),
        show_eu(zero),
        show_eu(x.join(&y)),
        show_eu(x.meet(&y)),
        show_eu(BBSemiring::choose(&x, &y)),
        show_eu(BBRing::choose(&x, &y)),
        cmp.to_string(),
        b01(x <= y).to_string(),
        show_eu(x.join(&y).join(&z)),
        show_eu(x.join(&y.join(&z))),
        show_eu(x.meet(&y).meet(&z)),
        show_eu(x.meet(&y.meet(&z))),
        show_eu((x + y) - y),
        show_eu(y * x),
        show_eu(x * one),
        show_eu(x + zero),
        show_eu(x * zero),
    ];
    if wide {
        got.push(show_eu(one * x));
        got.push(show_eu((y + z) * x));
    }
    got
}

fn eu_battery(v: &[Fr], fails: &mut Vec<String>, st: &mut Stats) -> String {
    let mk = |p: Fr, u: Fr| ExpectedUtility(p.to_f64(), u.to_f64());
    let (x, y, z) = (mk(v[0], v[1]), mk(v[2], v[3]), mk(v[4], v[5]));
    let got = eu_impl(x, y, z, &f64_exact, false, st);
    type E2 = (Fr, Fr);
    let add = |a: E2, b: E2| (a.0.add(b.0), a.1.add(b.1));
    // E[(p1,u1)*(p2,u2)] = (p1 p2, p1 u2 + u1 p2)
    let mul = |a: E2, b: E2| (a.0.mul(b.0), a.0.mul(b.1).add(a.1.mul(b.0)));
    let join = |a: E2, b: E2| (a.0.max(b.0), a.1.max(b.1));
    let meet = |a: E2, b: E2| (a.0.min(b.0), a.1.min(b.1));
    let sh = |a: E2| format!("{},{}", a.0.show(), a.1.show());
    let (a, b, c) = ((v[0], v[1]), (v[2], v[3]), (v[4], v[5]));
    // the order as documented by the code: strict in both components, or equal
    let ocmp = if a.0.lt(b.0) && a.1.lt(b.1) {
        "L"
    } else if b.0.lt(a.0) && b.1.lt(a.1) {
        "G"
    } else if a.0.eq(b.0) && a.1.eq(b.1) {
        "E"
    } else {
        "N"
    };
    let ochoose = if b.1.lt(a.1) { a } else { b };
    let want: Vec<String> = vec![
        sh(add(a, b)),
        sh(mul(a, b)),
        sh((a.0.sub(b.0), a.1.sub(b.1))),
        sh(add(add(a, b), c)),
        sh(add(add(a, b), c)),
        sh(mul(mul(a, b), c)),
        sh(mul(mul(a, b), c)),
        sh(mul(a, add(b, c))),
        sh(mul(a, add(b, c))),
        "1/1,0/1".into(),
        "0/1,0/1".into(),
        sh(join(a, b)),
        sh(meet(a, b)),
        sh(ochoose),
        sh(ochoose),
        ocmp.to_string(),
        b01(ocmp == "L" || ocmp == "E").to_string(),
        sh(join(join(a, b), c)),
        sh(join(join(a, b), c)),
        sh(meet(meet(a, b), c)),
        sh(meet(meet(a, b), c)),
        sh(a),
        sh(mul(a, b)),
        sh(a),
        sh(a),
        "0/1,0/1".into(),
    ];
    for i in 0..got.len() {
        check(fails, &format!("ExpectedUtility battery[{i}] a={} b={} c={}", sh(a), sh(b), sh(c)), &got[i], &want[i]);
    }
    if x <= y && !(x.join(&y) == y && BBSemiring::choose(&x, &y) == y && x.meet(&y) == x) {
        fails.push(format!("ExpectedUtility: {} <= {} but join/choose/meet do not return the larger/smaller", sh(a), sh(b)));
    }
    got.join(" ")
}

// ------------------------------------------------------------------------------------------
// wide-magnitude f64 streams (realw / cxw / euw): operands m * 2^e with exponents spread over up
// to 120 bits.  An entry is *fair* when every exact value occurring in its textbook evaluation
// (each real product, each real sum, the result) is representable in f64; then any IEEE
// evaluation of the textbook formula is exact, so the exact value is the only acceptable result.
type OD = Option<Dy>;
fn oadd(a: OD, b: OD) -> OD {
    a.and_then(|a| b.and_then(|b| a.add(b)))
}
fn osub(a: OD, b: OD) -> OD {
    a.and_then(|a| b.and_then(|b| a.sub(b)))
}
fn omul(a: OD, b: OD) -> OD {
    a.and_then(|a| b.and_then(|b| a.mul(b)))
}
type OP = Option<(Dy, Dy)>;
fn padd(a: OP, b: OP) -> OP {
    let (a, b) = (a?, b?);
    Some((a.0.add(b.0)?, a.1.add(b.1)?))
}
fn psub(a: OP, b: OP) -> OP {
    let (a, b) = (a?, b?);
    Some((a.0.sub(b.0)?, a.1.sub(b.1)?))
}
/// (a + bi)(c + di) = (ac - bd) + (ad + bc)i, all four products and both sums representable
fn cmul(a: OP, b: OP) -> OP {
    let (a, b) = (a?, b?);
    Some((a.0.mul(b.0)?.sub(a.1.mul(b.1)?)?, a.0.mul(b.1)?.add(a.1.mul(b.0)?)?))
}
/// (p1,u1)(p2,u2) = (p1 p2, p1 u2 + u1 p2)
fn emul(a: OP, b: OP) -> OP {
    let (a, b) = (a?, b?);
    Some((a.0.mul(b.0)?, a.0.mul(b.1)?.add(a.1.mul(b.0)?)?))
}
fn shp(a: OP) -> Option<String> {
    a.map(|a| format!("{},{}", a.0.show(), a.1.show()))
}

const REALW_NAMES: [&str; 25] = [
    "x+y", "x*y", "x-y", "(x+y)+z", "x+(y+z)", "(x*y)*z", "x*(y*z)", "x*(y+z)", "x*y+x*z", "one", "zero", "join(x,y)", "meet(x,y)",
    "BBSemiring::choose", "BBRing::choose", "x<=y", "join(join(x,y),z)", "join(x,join(y,z))", "meet(meet(x,y),z)", "meet(x,meet(y,z))",
    "(x+y)-y", "y*x", "x*one", "x+zero", "x*zero",
];
fn realw_want(v: &[Dy]) -> Vec<Option<String>> {
    let (a, b, c) = (Some(v[0]), Some(v[1]), Some(v[2]));
    let sh = |x: OD| x.map(|d| d.show());
    let d = |x: Dy| Some(x.show());
    vec![
        sh(oadd(a, b)),
        sh(omul(a, b)),
        sh(osub(a, b)),
        sh(oadd(oadd(a, b), c)),
        sh(oadd(a, oadd(b, c))),
        sh(omul(omul(a, b), c)),
        sh(omul(a, omul(b, c))),
        sh(omul(a, oadd(b, c))),
        sh(oadd(omul(a, b), omul(a, c))),
        d(DY1),
        d(DY0),
        d(v[0].max(v[1])),
        d(v[0].min(v[1])),
        d(v[0].max(v[1])),
        d(v[0].max(v[1])),
        Some(b01(!v[1].lt(v[0])).to_string()),
        d(v[0].max(v[1]).max(v[2])),
        d(v[0].max(v[1]).max(v[2])),
        d(v[0].min(v[1]).min(v[2])),
        d(v[0].min(v[1]).min(v[2])),
        sh(osub(oadd(a, b), b)),
        sh(omul(b, a)),
        sh(omul(a, Some(DY1))),
        sh(oadd(a, Some(DY0))),
        sh(omul(a, Some(DY0))),
    ]
}

const CXW_NAMES: [&str; 18] = [
    "x+y", "x*y", "x-y", "(x+y)+z", "x+(y+z)", "(x*y)*z", "x*(y*z)", "x*(y+z)", "x*y+x*z", "one", "zero", "y*x", "x*one", "x+zero", "x*zero",
    "(x+y)-y", "one*x", "(y+z)*x",
];
fn cxw_want(v: &[Dy]) -> Vec<Option<String>> {
    let (a, b, c) = (Some((v[0], v[1])), Some((v[2], v[3])), Some((v[4], v[5])));
    let (one, zero) = (Some((DY1, DY0)), Some((DY0, DY0)));
    vec![
        shp(padd(a, b)),
        shp(cmul(a, b)),
        shp(psub(a, b)),
        shp(padd(padd(a, b), c)),
        shp(padd(a, padd(b, c))),
        shp(cmul(cmul(a, b), c)),
        shp(cmul(a, cmul(b, c))),
        shp(cmul(a, padd(b, c))),
        shp(padd(cmul(a, b), cmul(a, c))),
        shp(one),
        shp(zero),
        shp(cmul(b, a)),
        shp(cmul(a, one)),
        shp(padd(a, zero)),
        shp(cmul(a, zero)),
        shp(psub(padd(a, b), b)),
        shp(cmul(one, a)),
        shp(cmul(padd(b, c), a)),
    ]
}

const EUW_NAMES: [&str; 28] = [
    "x+y", "x*y", "x-y", "(x+y)+z", "x+(y+z)", "(x*y)*z", "x*(y*z)", "x*(y+z)", "x*y+x*z", "one", "zero", "join(x,y)", "meet(x,y)",
    "BBSemiring::choose", "BBRing::choose", "partial_cmp", "x<=y", "join(join(x,y),z)", "join(x,join(y,z))", "meet(meet(x,y),z)",
    "meet(x,meet(y,z))", "(x+y)-y", "y*x", "x*one", "x+zero", "x*zero", "one*x", "(y+z)*x",
];
fn euw_want(v: &[Dy]) -> Vec<Option<String>> {
    let (pa, pb, pc) = ((v[0], v[1]), (v[2], v[3]), (v[4], v[5]));
    let (a, b, c) = (Some(pa), Some(pb), Some(pc));
    let (one, zero) = (Some((DY1, DY0)), Some((DY0, DY0)));
    type E2 = (Dy, Dy);
    let join = |a: E2, b: E2| (a.0.max(b.0), a.1.max(b.1));
    let meet = |a: E2, b: E2| (a.0.min(b.0), a.1.min(b.1));
    // the order as documented by the code: strict in both components, or equal
    let ocmp = if pa.0.lt(pb.0) && pa.1.lt(pb.1) {
        "L"
    } else if pb.0.lt(pa.0) && pb.1.lt(pa.1) {
        "G"
    } else if pa == pb {
        "E"
    } else {
        "N"
    };
    let ochoose = if pb.1.lt(pa.1) { pa } else { pb };
    vec![
        shp(padd(a, b)),
        shp(emul(a, b)),
        shp(psub(a, b)),
        shp(padd(padd(a, b), c)),
        shp(padd(a, padd(b, c))),
        shp(emul(emul(a, b), c)),
        shp(emul(a, emul(b, c))),
        shp(emul(a, padd(b, c))),
        shp(padd(emul(a, b), emul(a, c))),
        shp(one),
        shp(zero),
        shp(Some(join(pa, pb))),
        shp(Some(meet(pa, pb))),
        shp(Some(ochoose)),
        shp(Some(ochoose)),
        Some(ocmp.to_string()),
        Some(b01(ocmp == "L" || ocmp == "E").to_string()),
        shp(Some(join(join(pa, pb), pc))),
        shp(Some(join(join(pa, pb), pc))),
        shp(Some(meet(meet(pa, pb), pc))),
        shp(Some(meet(meet(pa, pb), pc))),
        shp(psub(padd(a, b), b)),
        shp(emul(b, a)),
        shp(emul(a, one)),
        shp(padd(a, zero)),
        shp(emul(a, zero)),
        shp(emul(one, a)),
        shp(emul(padd(b, c), a)),
    ]
}

/// largest distance between the binary exponents (position of the leading bit) of two non-zero operand components
fn spread(v: &[Dy]) -> i32 {
    let top: Vec<i32> = v.iter().filter(|d| d.m != 0).map(|d| d.e + 128 - d.m.unsigned_abs().leading_zeros() as i32).collect();
    match (top.iter().max(), top.iter().min()) {
        (Some(h), Some(l)) => h - l,
        _ => 0,
    }
}

/// print the entries marked 1 in the case's mask, compare each with exact arithmetic
fn wide_masked(ty: &str, mask: &str, ops: &[Dy], got: Vec<String>, want: Vec<Option<String>>, names: &[&str], fails: &mut Vec<String>, st: &mut Stats) -> String {
    let opsh = ops.iter().map(|d| d.show()).collect::<Vec<_>>().join(" ");
    if mask.len() != got.len() || want.len() != got.len() || names.len() != got.len() {
        fails.push(format!("{ty}: malformed case, mask of length {} for a battery of {}", mask.len(), got.len()));
        return "BADMASK".into();
    }
    let sp = spread(ops);
    st.bump(&format!("{ty}_exponent_spread={}", if sp <= 26 { "0..26" } else if sp <= 53 { "27..53" } else { "54.." }));
    let mut out = vec![];
    for i in 0..got.len() {
        if mask.as_bytes()[i] != b'1' {
            out.push("~".to_string());
            continue;
        }
        out.push(got[i].clone());
        match &want[i] {
            None => fails.push(format!("{ty}: malformed case, the mask marks {} as exactly representable on {opsh} but exact arithmetic says it is not", names[i])),
            Some(w) => {
                if sp > 26 {
                    st.bump(&format!("{ty}_fair_entries_with_spread>26"));
                }
                if &got[i] != w {
                    fails.push(format!(
                        "{ty} {} on operands {opsh} (written m p e = m*2^e): implementation {}, exact arithmetic {w}; the operands and every exact product, sum and result of this expression are representable in f64",
                        names[i], got[i]
                    ));
                }
            }
        }
    }
    out.join(" ")
}

// ------------------------------------------------------------------------------------------
// RationalSemiring: the field is private, so values are built from one() by double-and-add
fn rat_of(n: u64) -> RationalSemiring {
    let mut acc = RationalSemiring::zero();
    for i in (0..64).rev() {
        acc = acc + acc;
        if (n >> i) & 1 == 1 {
            acc = acc + RationalSemiring::one();
        }
    }
    acc
}
fn rat_battery(a: u64, b: u64, c: u64, fails: &mut Vec<String>) -> String {
    let (x, y, z) = (rat_of(a), rat_of(b), rat_of(c));
    let (one, zero) = (RationalSemiring::one(), RationalSemiring::zero());
    let got: Vec<String> = vec![
        format!("{x}"),
        format!("{}", x + y),
        format!("{}", x * y),
        format!("{}", (x + y) + z),
        format!("{}", x + (y + z)),
        format!("{}", (x * y) * z),
        format!("{}", x * (y * z)),
        format!("{}", x * (y + z)),
        format!("{}", x * y + x * z),
        format!("{one}"),
        format!("{zero}"),
        format!("{}", y * x),
        format!("{}", x * one),
        format!("{}", x + zero),
        format!("{}", x * zero),
    ];
    let (a, b, c) = (a as u128, b as u128, c as u128);
    let want: Vec<u128> = vec![a, a + b, a * b, a + b + c, a + b + c, a * b * c, a * b * c, a * (b + c), a * (b + c), 1, 0, a * b, a, a, 0];
    for i in 0..got.len() {
        check(fails, &format!("RationalSemiring battery[{i}] a={a} b={b} c={c}"), &got[i], &format!("{}/1", want[i]));
    }
    got.join(" ")
}

// ------------------------------------------------------------------------------------------
// Polynomial<C>
struct PolyIn {
    len: usize,
    cs: Vec<i64>,
}
fn parse_poly(t: &[&str], i: &mut usize) -> PolyIn {
    let len: usize = t[*i].parse().unwrap();
    let k: usize = t[*i + 1].parse().unwrap();
    let cs = (0..k).map(|j| t[*i + 2 + j].parse().unwrap()).collect();
    *i += 2 + k;
    PolyIn { len, cs }
}
fn mk_poly<C: Semiring + Copy>(p: &PolyIn, conv: &dyn Fn(i64) -> C) -> Polynomial<C> {
    let mut arr = [C::zero(); MAX_COEFFS];
    for (i, c) in p.cs.iter().enumerate() {
        arr[i] = conv(*c);
    }
    Polynomial { coefficients: arr, len: p.len }
}
fn show_poly<C: Semiring + Copy>(p: &Polynomial<C>, sh: &dyn Fn(C) -> String) -> String {
    format!("{}:{}", p.len, p.coefficients.iter().map(|c| sh(*c)).collect::<Vec<_>>().join(","))
}
/// reference polynomial: plain integer coefficients, (len, coefficient array)
type RefPoly = (usize, Vec<i128>);
fn ref_norm(modulus: Option<i128>, v: i128) -> i128 {
    match modulus {
        Some(m) => v.rem_euclid(m),
        None => v,
    }
}
fn ref_add(m: Option<i128>, a: &RefPoly, b: &RefPoly) -> RefPoly {
    let l = a.0.max(b.0).min(MAX_COEFFS);
    let mut r = vec![0i128; MAX_COEFFS];
    for k in 0..l {
        r[k] = ref_norm(m, a.1[k] + b.1[k]);
    }
    (l, r)
}
/// product = convolution of the first len coefficients, truncated to MAX_COEFFS
fn ref_mul(m: Option<i128>, a: &RefPoly, b: &RefPoly) -> RefPoly {
    let mut r = vec![0i128; MAX_COEFFS];
    if a.0 == 0 || b.0 == 0 {
        return (0, r);
    }
    for k in 0..MAX_COEFFS {
        let mut s = 0i128;
        for i in 0..=k {
            let j = k - i;
            if i < a.0 && j < b.0 && i < MAX_COEFFS && j < MAX_COEFFS {
                s += a.1[i] * b.1[j];
            }
        }
        r[k] = ref_norm(m, s);
    }
    ((a.0 + b.0 - 1).min(MAX_COEFFS), r)
}
fn ref_show(ff: bool, p: &RefPoly) -> String {
    format!("{}:{}", p.0, p.1.iter().map(|c| if ff { format!("{c}") } else { format!("{c}/1") }).collect::<Vec<_>>().join(","))
}

fn poly_battery<C: Semiring + Copy + PartialEq>(
    ins: &[PolyIn],
    conv: &dyn Fn(i64) -> C,
    sh: &dyn Fn(C) -> String,
    ff: bool,
    fails: &mut Vec<String>,
    st: &mut Stats,
) -> String {
    let (x, y, z) = (mk_poly(&ins[0], conv), mk_poly(&ins[1], conv), mk_poly(&ins[2], conv));
    let (one, zero) = (Polynomial::<C>::one(), Polynomial::<C>::zero());
    let res: Vec<Polynomial<C>> = vec![
        x + y,
        x * y,
        (x + y) + z,
        x + (y + z),
        (x * y) * z,
        x * (y * z),
        x * (y + z),
        x * y + x * z,
        one * x,
        x + zero,
        x * zero,
        y * x,
        one,
        zero,
    ];
    let got: Vec<String> = res.iter().map(|p| show_poly(p, sh)).collect();
    // oracle (only for well-formed operands: len <= MAX and nothing stored beyond len)
    let wf = ins.iter().all(|p| p.len <= MAX_COEFFS && p.cs.len() <= p.len);
    if wf {
        let m = if ff { Some(11i128) } else { None };
        let rp = |p: &PolyIn| -> RefPoly {
            let mut v = vec![0i128; MAX_COEFFS];
            for (i, c) in p.cs.iter().enumerate() {
                v[i] = ref_norm(m, *c as i128);
            }
            (p.len, v)
        };
        let (a, b, c) = (rp(&ins[0]), rp(&ins[1]), rp(&ins[2]));
        let mut one_r = (1usize, vec![0i128; MAX_COEFFS]);
        one_r.1[0] = 1;
        let zero_r = (0usize, vec![0i128; MAX_COEFFS]);
        let abc = ref_mul(m, &ref_mul(m, &a, &b), &c);
        let want: Vec<RefPoly> = vec![
            ref_add(m, &a, &b),
            ref_mul(m, &a, &b),
            ref_add(m, &ref_add(m, &a, &b), &c),
            ref_add(m, &ref_add(m, &a, &b), &c),
            abc.clone(),
            abc,
            ref_mul(m, &a, &ref_add(m, &b, &c)),
            ref_mul(m, &a, &ref_add(m, &b, &c)),
            a.clone(),
            a.clone(),
            zero_r.clone(),
            ref_mul(m, &a, &b),
            one_r,
            zero_r,
        ];
        for i in 0..got.len() {
            check(fails, &format!("Polynomial battery[{i}] lens {} {} {}", ins[0].len, ins[1].len, ins[2].len), &got[i], &ref_show(ff, &want[i]));
        }
        // the laws on the implementation's own values (derived PartialEq: all 32 coefficients and len)
        if res[2] != res[3] || res[4] != res[5] || res[6] != res[7] || res[1] != res[11] || res[8] != x || res[9] != x || res[10] != zero {
            fails.push(format!("Polynomial: a semiring law fails on well-formed operands of lengths {} {} {}", ins[0].len, ins[1].len, ins[2].len));
        }
        if ins[0].len + ins[1].len > MAX_COEFFS + 1 {
            st.bump("poly_product_truncated");
        }
    } else {
        st.bump("poly_malformed_len");
    }
    got.join(" ")
}

// ------------------------------------------------------------------------------------------
pub fn run(case: &str, st: &mut Stats) -> Outcome {
    let t = toks(case);
    let mut fails = vec![];
    st.bump(&format!("type={}", t[0]));
    let frs = |from: usize, k: usize| -> Vec<Fr> { (0..k).map(|i| Fr::parse(t[from + i])).collect() };
    let nontriv_fr = |v: &[Fr]| v.iter().filter(|f| !(f.0 == 0 || (f.0 == 1 && f.1 == 1))).count() >= 2;
    let (result, nontrivial) = match t[0] {
        "ff" => {
            let p: u128 = t[1].parse().unwrap();
            let (a, b, c): (u128, u128, u128) = (t[2].parse().unwrap(), t[3].parse().unwrap(), t[4].parse().unwrap());
            st.bump(&format!("ff_P={p}"));
            match ff_dispatch(p, a, b, c, &mut fails, st) {
                Some(r) => r,
                None => ("BADP".to_string(), false),
            }
        }
        "bool" => {
            let v: Vec<bool> = (1..4).map(|i| t[i] == "1").collect();
            let (x, y, z) = (BooleanSemiring(v[0]), BooleanSemiring(v[1]), BooleanSemiring(v[2]));
            let (one, zero) = (BooleanSemiring::one(), BooleanSemiring::zero());
            let got = vec![x + y, x * y, (x + y) + z, x + (y + z), (x * y) * z, x * (y * z), x * (y + z), x * y + x * z, one, zero, y * x, y + x, x * one, x + zero, x * zero];
            let (a, b, c) = (v[0], v[1], v[2]);
            let want = vec![a | b, a & b, a | b | c, a | b | c, a & b & c, a & b & c, a & (b | c), a & (b | c), true, false, a & b, a | b, a, a, false];
            for i in 0..got.len() {
                if got[i].0 != want[i] {
                    fails.push(format!("BooleanSemiring battery[{i}] on {a} {b} {c}: {} vs truth table {}", got[i].0, want[i]));
                }
            }
            (got.iter().map(|g| b01(g.0)).collect::<Vec<_>>().join(" "), true)
        }
        "real" => {
            let v = frs(1, 3);
            (real_battery(v[0], v[1], v[2], &mut fails), nontriv_fr(&v))
        }
        "cx" => {
            let v = frs(1, 6);
            (cx_battery(&v, &mut fails), nontriv_fr(&v))
        }
        "eu" => {
            let v = frs(1, 6);
            (eu_battery(&v, &mut fails, st), nontriv_fr(&v))
        }
        "realw" | "cxw" | "euw" => {
            let k = if t[0] == "realw" { 3 } else { 6 };
            let v: Vec<Dy> = (0..k).map(|i| Dy::parse(t[2 + i])).collect();
            let f: Vec<f64> = v.iter().map(|d| d.to_f64()).collect();
            let r = match t[0] {
                "realw" => {
                    let got = real_impl(RealSemiring(f[0]), RealSemiring(f[1]), RealSemiring(f[2]), &f64_dy);
                    wide_masked("realw", t[1], &v, got, realw_want(&v), &REALW_NAMES, &mut fails, st)
                }
                "cxw" => {
                    let mk = |i: usize| Complex { re: f[i], im: f[i + 1] };
                    let got = cx_impl(mk(0), mk(2), mk(4), &f64_dy, true);
                    wide_masked("cxw", t[1], &v, got, cxw_want(&v), &CXW_NAMES, &mut fails, st)
                }
                _ => {
                    let mk = |i: usize| ExpectedUtility(f[i], f[i + 1]);
                    let got = eu_impl(mk(0), mk(2), mk(4), &f64_dy, true, st);
                    wide_masked("euw", t[1], &v, got, euw_want(&v), &EUW_NAMES, &mut fails, st)
                }
            };
            (r, v.iter().filter(|d| !(d.m == 0 || **d == DY1)).count() >= 2)
        }
        "rat" => {
            let (a, b, c): (u64, u64, u64) = (t[1].parse().unwrap(), t[2].parse().unwrap(), t[3].parse().unwrap());
            (rat_battery(a, b, c, &mut fails), [a, b, c].iter().filter(|v| **v > 1).count() >= 2)
        }
        "poly" => {
            let mut i = 2;
            let ins = vec![parse_poly(&t, &mut i), parse_poly(&t, &mut i), parse_poly(&t, &mut i)];
            let nt = ins.iter().filter(|p| p.len >= 2).count() >= 2;
            for p in &ins {
                st.bump(&format!("poly_len={}", if p.len <= 3 { p.len.to_string() } else if p.len >= 31 { format!("{}", p.len) } else { "4..30".into() }));
            }
            let r = match t[1] {
                "real" => poly_battery::<RealSemiring>(&ins, &|c| RealSemiring(c as f64), &|c| f64_exact(c.0), false, &mut fails, st),
                "ff11" => poly_battery::<FiniteField<11>>(&ins, &|c| FiniteField::<11>::new(c as u128), &|c| c.value().to_string(), true, &mut fails, st),
                _ => panic!("bad poly coefficient type"),
            };
            (r, nt)
        }
        _ => panic!("bad case"),
    };
    Outcome { result, fails, nontrivial }
}
