//! C10: queries are pure.
//! case:  <BDD program> Q (<query>)*
//!   w <i> (<lo> <hi>)*total   unsmoothed_wmc, real semiring, integer weights
//!   f <i>                     unsmoothed_wmc, FiniteField<U64_LARGEST>, unit weights
//!   e <i> (<bit>)*total       evaluate
//!   n <i>                     count_nodes
//!   h <i>                     semantic_hash (FiniteField<U64_LARGEST>, create_semantic_hash_map)
//!   m <i> <k> (<var>)*k       marginal_map over k query variables (weights 1/2,1/2)
//!   c <i> <var> <b>           condition (result's unfolding)
//!   s <i> <n>                 smooth    (result's unfolding)
//!   r <count> <q0> <q1>       repeat: <q0>, <q1> are two complete sub-queries of one kind (w, n or e) on ONE pool
//!                             entry; repetition t = 0..count-1 runs q0 for even t and q1 for odd t (so the weights /
//!                             the assignment alternate); only the LAST answer is printed.  Counts sit around the
//!                             2^8 and 2^16 boundaries (255, 256, 257, 65535, 65536, 65537, 131072), so that per-thread
//!                             / per-node counters of those widths wrap between two queries that share nodes.
//! out:   one answer per query.  After EVERY query the harness walks every node reachable from
//! every pool entry and from the result and requires is_scratch_cleared(); every answer is
//! compared with the same query on a freshly built copy of the diagram in a new builder.
//! In a case with an `r` query the scratch walk also runs after EVERY repetition, and the fresh-copy
//! comparisons are deferred to the end of the case (so that the number of traversals between two
//! queries on the builder under test is exactly the number the case text says; the fresh copy of an
//! `r` query runs its last sub-query once: that is what purity promises for the repeated one).
use rsdd::constants::primes;
use rsdd::repr::{create_semantic_hash_map, BddPtr, DDNNFPtr, VarLabel, WmcParams};
use rsdd::util::semirings::{FiniteField, RealSemiring};
use rsdd_verif_harness::bddprog::*;
use rsdd_verif_harness::*;
use std::collections::HashMap;

pub const PROP: Prop = Prop { gen, run, panic_ok: never };

fn main() {
    run_main(PROP)
}

const REPEAT_COUNTS: [usize; 7] = [255, 256, 257, 65535, 65536, 65537, 131072];

fn push_weights(rng: &mut Rng, s: &mut String, total: usize) {
    for _ in 0..total {
        s.push_str(&format!(" {} {}", rng.below(5), rng.below(5)));
    }
}

/// `r <count> <q0> <q1>` on pool entry c
fn push_repeat(rng: &mut Rng, s: &mut String, count: usize, c: usize, total: usize) {
    s.push_str(&format!(" r {count}"));
    match rng.below(6) {
        0 => s.push_str(&format!(" n {c} n {c}")),
        1 => {
            for _ in 0..2 {
                s.push_str(&format!(" e {c}"));
                for _ in 0..total { s.push_str(&format!(" {}", rng.coin() as u8)); }
            }
        }
        _ => {
            for _ in 0..2 {
                s.push_str(&format!(" w {c}"));
                push_weights(rng, s, total);
            }
        }
    }
}

/// Directed family (about 1.7% of the cases): a SMALL program (<= 5 variables) extended by
///   n = a function of the variables below the two top variables t0, t1 of the order,
///   A = t0 & n,  B = +-t1 & n   (two diagrams with different roots that share the nodes of n),
///   C = a function of t0, t1 only (no node in common with n),
/// and the queries   <q on A, weights p1> ; r <count> <cheap query on C> ; <q on B, weights p2> ; ...
/// with count around 2^8 / 2^16: whatever per-traversal state an implementation keeps (a generation
/// stamp, a visit counter), a memo left in n by the first query must not be taken for a current one by
/// the last, however many traversals of other diagrams lie in between.  A quarter of these cases picks
/// A, B, C at random in the pool instead.
fn gen_repeat_case(rng: &mut Rng) -> String {
    let o = GenOpts { max_vars: 5, max_ops: 5, new_vars: false, small_tables: false };
    // idx/n = 1/2: 3..4 variables, 5..9 random operations first
    let size = rng.range(40, 99);
    let p = gen_prog(rng, size, 100, &o);
    let prog = parse(&p);
    let total = prog.total_vars();
    let m = prog.ops.len();
    let order = prog.pos_to_var();
    let mut s = p.clone();
    let (a, b, c);
    if total >= 3 && !rng.chance(1, 4) {
        let (t0, t1) = (order[0], order[1]);
        let rest = &order[2..];
        let mut k = m;
        // n over the remaining variables
        s.push_str(&format!(" v {} {}", rest[0], rng.coin() as u8));
        k += 1;
        let mut nidx = k - 1;
        for r in &rest[1..] {
            s.push_str(&format!(" v {r} {}", rng.coin() as u8));
            s.push_str(&format!(" {} {} {}", *rng.pick(&["a", "o", "x", "e"]), nidx, k));
            k += 2;
            nidx = k - 1;
        }
        s.push_str(&format!(" v {t0} 1 v {t1} {}", rng.coin() as u8));
        s.push_str(&format!(" a {} {nidx} a {} {nidx}", k, k + 1));
        a = k + 2;
        b = k + 3;
        s.push_str(&format!(" {} {} {}", *rng.pick(&["a", "o", "x"]), k, k + 1));
        c = k + 4;
    } else {
        let npool = m as u64;
        a = rng.below(npool) as usize;
        b = rng.below(npool) as usize;
        c = rng.below(npool) as usize;
    }
    s.push_str(" Q");
    let count = *rng.pick(&REPEAT_COUNTS);
    // same-typed first and last query (a memo of another type is invisible to the last one)
    let kind = rng.below(8);
    let q = |rng: &mut Rng, s: &mut String, i: usize| match kind {
        0 => s.push_str(&format!(" n {i}")),
        1 => s.push_str(&format!(" f {i}")),
        2 => { s.push_str(&format!(" e {i}")); for _ in 0..total { s.push_str(&format!(" {}", rng.coin() as u8)); } }
        _ => { s.push_str(&format!(" w {i}")); push_weights(rng, s, total); }
    };
    q(rng, &mut s, a);
    push_repeat(rng, &mut s, count, c, total);
    q(rng, &mut s, b);
    // and afterwards the first diagram again (its ROOT carries the old memo), then a few more
    q(rng, &mut s, a);
    if rng.coin() {
        let (cnt, on) = (*rng.pick(&[1usize, 2, 3, 254, 255, 256]), rng.below((c + 1) as u64) as usize);
        push_repeat(rng, &mut s, cnt, on, total);
        q(rng, &mut s, b);
    }
    s.push_str(&format!(" n {a} n {b}"));
    s
}

pub fn gen(rng: &mut Rng, idx: usize, n: usize, thorough: bool) -> String {
    if idx > n / 10 && rng.chance(1, 60) {
        return gen_repeat_case(rng);
    }
    let o = GenOpts { max_vars: if thorough { 7 } else { 6 }, max_ops: if thorough { 30 } else { 14 }, new_vars: false, small_tables: false };
    let p = gen_prog(rng, idx, n, &o);
    let prog = parse(&p);
    let total = prog.total_vars();
    let npool = prog.ops.len();
    let mut s = format!("{p} Q");
    let nq = 3 + rng.range(0, if thorough { 12 } else { 7 });
    for _ in 0..nq {
        // bias towards the largest diagrams and towards entries that share structure
        let i = if rng.chance(2, 3) { npool - 1 - rng.range(0, 2.min(npool - 1)) } else { rng.below(npool as u64) as usize };
        match rng.below(12) {
            // the same diagram counted with other weights of the same type straight afterwards: a
            // stale memo entry of the first count would be reused by the second
            0 | 1 | 10 => {
                for _ in 0..(if rng.coin() { 2 } else { 1 }) {
                    s.push_str(&format!(" w {i}"));
                    for _ in 0..total { s.push_str(&format!(" {} {}", rng.below(5), rng.below(5))); }
                }
            }
            11 => s.push_str(&format!(" c {i} {} {}", rng.below(total as u64), rng.coin() as u8)),
            2 => s.push_str(&format!(" f {i}")),
            3 | 4 => { s.push_str(&format!(" e {i}")); for _ in 0..total { s.push_str(&format!(" {}", rng.coin() as u8)); } }
            5 => s.push_str(&format!(" n {i}")),
            6 => s.push_str(&format!(" h {i}")),
            7 => { let k = rng.range(0, total.min(3)); let mut vs = rng.perm(total); vs.truncate(k); s.push_str(&format!(" m {i} {k}")); for v in vs { s.push_str(&format!(" {v}")); } }
            8 if rng.coin() => s.push_str(&format!(" c {i} {} {}", rng.below(total as u64), rng.coin() as u8)),
            8 => {
                // a small random CNF of its own (2..4 clauses of 2..3 literals over <= 5 variables), compiled top-down
                let nv = total.min(5).max(2);
                let ncl = rng.range(2, 4);
                s.push_str(&format!(" d {ncl}"));
                for _ in 0..ncl {
                    let len = rng.range(2, 3.min(nv));
                    let mut vs = rng.perm(nv);
                    vs.truncate(len);
                    s.push_str(&format!(" {len}"));
                    for v in vs { s.push_str(&format!(" {v} {}", rng.coin() as u8)); }
                }
                let k = rng.range(2, 4);
                s.push_str(&format!(" {k}"));
                for _ in 0..k { s.push_str(&format!(" {} {}", rng.below(nv as u64), rng.coin() as u8)); }
            }
            _ => s.push_str(&format!(" s {i} {}", rng.range(0, total))),
        }
    }
    s
}

#[derive(Clone, Debug)]
enum Q { D(Vec<Vec<(u64, bool)>>, Vec<(u64, bool)>), W(usize, Vec<(u64, u64)>), F(usize), E(usize, Vec<bool>), N(usize), H(usize), M(usize, Vec<u64>), C(usize, u64, bool), S(usize, usize), R(usize, Box<Q>, Box<Q>) }

fn parse_queries(t: &[String], total: usize) -> Vec<Q> {
    let mut i = 1;
    let mut qs = vec![];
    while i < t.len() {
        i = parse_one(t, i, total, &mut qs);
    }
    qs
}

/// parses the query that starts at token i, pushes it, returns the index of the next query
fn parse_one(t: &[String], start: usize, total: usize, qs: &mut Vec<Q>) -> usize {
    let mut i = start;
    let u = |s: &String| -> usize { s.parse().unwrap() };
    {
        match t[i].as_str() {
            "r" => {
                let count = u(&t[i + 1]);
                let mut sub = vec![];
                let j = parse_one(t, i + 2, total, &mut sub);
                let j = parse_one(t, j, total, &mut sub);
                let q1 = sub.pop().unwrap();
                let q0 = sub.pop().unwrap();
                assert!(count >= 1 && matches!((&q0, &q1), (Q::W(..), Q::W(..)) | (Q::N(..), Q::N(..)) | (Q::E(..), Q::E(..))), "bad repeat");
                qs.push(Q::R(count, Box::new(q0), Box::new(q1)));
                i = j
            }
            "w" => { let w = (0..total).map(|v| (u(&t[i + 2 + 2 * v]) as u64, u(&t[i + 3 + 2 * v]) as u64)).collect(); qs.push(Q::W(u(&t[i + 1]), w)); i += 2 + 2 * total }
            "f" => { qs.push(Q::F(u(&t[i + 1]))); i += 2 }
            "e" => { let a = (0..total).map(|v| t[i + 2 + v] != "0").collect(); qs.push(Q::E(u(&t[i + 1]), a)); i += 2 + total }
            "n" => { qs.push(Q::N(u(&t[i + 1]))); i += 2 }
            "h" => { qs.push(Q::H(u(&t[i + 1]))); i += 2 }
            "m" => { let k = u(&t[i + 2]); let vs = (0..k).map(|j| u(&t[i + 3 + j]) as u64).collect(); qs.push(Q::M(u(&t[i + 1]), vs)); i += 3 + k }
            "c" => { qs.push(Q::C(u(&t[i + 1]), u(&t[i + 2]) as u64, t[i + 3] != "0")); i += 4 }
            "d" => {
                let ncl = u(&t[i + 1]);
                let mut j = i + 2;
                let mut cls = vec![];
                for _ in 0..ncl {
                    let len = u(&t[j]);
                    cls.push((0..len).map(|x| (u(&t[j + 1 + 2 * x]) as u64, t[j + 2 + 2 * x] != "0")).collect());
                    j += 1 + 2 * len;
                }
                let k = u(&t[j]);
                let l = (0..k).map(|x| (u(&t[j + 1 + 2 * x]) as u64, t[j + 2 + 2 * x] != "0")).collect();
                qs.push(Q::D(cls, l));
                i = j + 1 + 2 * k
            }
            "s" => { qs.push(Q::S(u(&t[i + 1]), u(&t[i + 2]))); i += 3 }
            _ => panic!("bad query"),
        }
    }
    i
}

fn answer<'a>(b: &'a AnyBuilder<'a>, pool: &[BddPtr<'a>], q: &Q, total: usize) -> (String, Option<BddPtr<'a>>) {
    match q {
        Q::W(i, w) => {
            let params: WmcParams<RealSemiring> = WmcParams::new(HashMap::from_iter((0..total).map(|v| (VarLabel::new(v as u64), (RealSemiring(w[v].0 as f64), RealSemiring(w[v].1 as f64))))));
            (format!("{}", pool[*i].unsmoothed_wmc(&params).0 as u128), None)
        }
        Q::F(i) => {
            let params: WmcParams<FiniteField<{ primes::U64_LARGEST }>> = WmcParams::new(HashMap::from_iter((0..total).map(|v| (VarLabel::new(v as u64), (FiniteField::new(1), FiniteField::new(1))))));
            (format!("{}", pool[*i].unsmoothed_wmc(&params).value()), None)
        }
        Q::E(i, a) => (format!("{}", pool[*i].evaluate(a) as u8), None),
        Q::N(i) => (format!("{}", pool[*i].count_nodes()), None),
        Q::H(i) => {
            let map = create_semantic_hash_map::<{ primes::U64_LARGEST }>(total);
            (format!("h{}", pool[*i].semantic_hash(&map).value()), None)
        }
        Q::M(i, vs) => {
            let params: WmcParams<RealSemiring> = WmcParams::new(HashMap::from_iter((0..total).map(|v| (VarLabel::new(v as u64), (RealSemiring(0.5), RealSemiring(0.5))))));
            let labels: Vec<VarLabel> = vs.iter().map(|v| VarLabel::new(*v)).collect();
            let (val, pm) = pool[*i].marginal_map(&labels, total, &params);
            let mut asg: Vec<String> = vs.iter().map(|v| format!("{v}={:?}", pm.get(VarLabel::new(*v)))).collect();
            asg.sort();
            (format!("m{}:{}", val, asg.join(",")), None)
        }
        Q::D(..) => ("ok".to_string(), None),
        // on its own (fresh copy): the last repetition only; the builder under test repeats in `run`
        Q::R(c, q0, q1) => answer(b, pool, if (c - 1) % 2 == 0 { q0 } else { q1 }, total),
        Q::C(i, v, val) => { let r = b.condition(pool[*i], *v, *val); let mut s = String::new(); unfold(r, &mut s); (s, Some(r)) }
        Q::S(i, n) => { let r = b.smooth(pool[*i], *n); let mut s = String::new(); unfold(r, &mut s); (s, Some(r)) }
    }
}

/// decision-DNNF conditioning (top-down compiled from the canonical CNF of the function): several
/// conditionings with different literals on the SAME diagram and on its negation; after each the
/// scratch of every reachable node must be empty and the answer must be the restriction
fn dnnf_conditions(cls: &[Vec<(u64, bool)>], lits: &[(u64, bool)], k: usize, fails: &mut Vec<String>) {
    use rsdd::builder::decision_nnf::{DecisionNNFBuilder, StandardDecisionNNFBuilder};
    use rsdd::builder::TopDownBuilder;
    use rsdd::repr::{Cnf, Literal, VarOrder};
    let clauses: Vec<Vec<Literal>> = cls.iter().map(|c| c.iter().map(|(v, p)| Literal::new(VarLabel::new(*v), *p)).collect()).collect();
    let cnf = Cnf::new(&clauses);
    let total = cnf.num_vars();
    let db = StandardDecisionNNFBuilder::new(VarOrder::linear_order(total));
    let d = db.compile_cnf_topdown(&cnf);
    for root in [d, d.neg()] {
        let rt = table_of(root, total);
        for (v, val) in lits {
            if *v as usize >= total {
                continue;
            }
            let r = db.condition(root, VarLabel::new(*v), *val);
            if uncleared(root) || uncleared(r) {
                fails.push(format!("query {k}: after decision-DNNF condition on ({v},{val}) some reachable node still has scratch data"));
            }
            let got = table_of(r, total);
            let upd = |a: usize| if *val { a | (1 << v) } else { a & !(1 << v) };
            if (0..(1usize << total)).any(|a| got[a] != rt[upd(a)]) {
                fails.push(format!("query {k}: decision-DNNF condition on ({v},{val}) after earlier conditionings of the same diagram is not the restriction"));
            }
        }
    }
}

/// the hash-identified top-down builder stores nodes unnormalised (complemented high edges occur),
/// a diagram shape the other builders never produce: counts with two weight sets on the root, on
/// every sub-node and on every conditioning result, scratch walked after each, values against the
/// brute-force sum (normalised dyadic weights: exact).  Oracle only.
fn semantic_dnnf_queries(cls: &[Vec<(u64, bool)>], k: usize, fails: &mut Vec<String>) {
    use rsdd::builder::decision_nnf::{DecisionNNFBuilder, SemanticDecisionNNFBuilder};
    use rsdd::builder::TopDownBuilder;
    use rsdd::repr::{Cnf, Literal, VarOrder};
    let clauses: Vec<Vec<Literal>> = cls.iter().map(|c| c.iter().map(|(v, p)| Literal::new(VarLabel::new(*v), *p)).collect()).collect();
    let cnf = Cnf::new(&clauses);
    let total = cnf.num_vars();
    if total == 0 || total > 8 {
        return;
    }
    rsdd::verif::TABLE_CAPACITY.with(|c| c.set(Some(64))); // small initial table: many builders per case
    let db = SemanticDecisionNNFBuilder::<{ primes::U64_LARGEST }>::new(VarOrder::linear_order(total));
    rsdd::verif::TABLE_CAPACITY.with(|c| c.set(None));
    let d = db.compile_cnf_topdown(&cnf);
    let wsets: [Vec<f64>; 2] = [(0..total).map(|v| [0.25, 0.5, 0.75][v % 3]).collect(), (0..total).map(|v| [0.5, 0.125, 0.25, 0.875][(v + 1) % 4]).collect()];
    let params: Vec<WmcParams<RealSemiring>> = wsets.iter().map(|hs| WmcParams::new(HashMap::from_iter((0..total).map(|v| (VarLabel::new(v as u64), (RealSemiring(1.0 - hs[v]), RealSemiring(hs[v]))))))).collect();
    let brute = |t: &Vec<bool>, hs: &Vec<f64>| -> f64 { (0..(1usize << total)).filter(|a| t[*a]).map(|a| (0..total).map(|v| if (a >> v) & 1 == 1 { hs[v] } else { 1.0 - hs[v] }).product::<f64>()).sum() };
    let mut nodes: Vec<BddPtr> = vec![];
    fn collect<'a>(p: BddPtr<'a>, out: &mut Vec<BddPtr<'a>>) {
        if let BddPtr::Reg(n) | BddPtr::Compl(n) = p {
            if !out.contains(&p) {
                out.push(p);
                collect(n.low, out);
                collect(n.high, out);
            }
        }
    }
    collect(d, &mut nodes);
    let mut targets: Vec<BddPtr> = nodes.clone();
    for v in 0..total {
        for val in [false, true] {
            targets.push(db.condition(d, VarLabel::new(v as u64), val));
        }
    }
    for (ti, t) in targets.iter().enumerate() {
        let tb = table_of(*t, total);
        for (wi, pr) in params.iter().enumerate() {
            let got = t.unsmoothed_wmc(pr).0;
            let want = brute(&tb, &wsets[wi]);
            if got != want {
                fails.push(format!("query {k}: semantic decision-DNNF target {ti} (of {} nodes + conditionings), weight set {wi}: count {got}, the sum over its models is {want}", nodes.len()));
                return;
            }
            if uncleared(d) || uncleared(*t) {
                fails.push(format!("query {k}: semantic decision-DNNF target {ti}: some reachable node still has scratch data after a count"));
                return;
            }
        }
    }
}

fn uncleared(p: BddPtr) -> bool {
    match p {
        BddPtr::Reg(n) | BddPtr::Compl(n) => !p.is_scratch_cleared() || uncleared(n.low) || uncleared(n.high),
        _ => false,
    }
}

pub fn run(case: &str, st: &mut Stats) -> Outcome {
    let prog = parse(case);
    let total = prog.total_vars();
    let qs = parse_queries(&prog.rest, total);
    let b = AnyBuilder::new(&prog);
    let mut dummy = Stats::default();
    let pool = exec(&b, &prog, &mut dummy);
    let mut fails = vec![];
    let mut outs = vec![];
    // with a repeat query in the case, the fresh-copy comparisons wait until all queries have run on
    // the builder under test (the traversals of the copies would otherwise sit between the queries)
    let defer = qs.iter().any(|q| matches!(q, Q::R(..)));
    let mut deferred: Vec<(usize, String)> = vec![];
    for (k, q) in qs.iter().enumerate() {
        let (a, res) = match q {
            Q::R(c, q0, q1) => {
                let mut last = (String::new(), None);
                let mut dirty_at = None;
                for t in 0..*c {
                    last = answer(&b, &pool, if t % 2 == 0 { q0 } else { q1 }, total);
                    // between any two public calls every slot is empty
                    if dirty_at.is_none() && t + 1 < *c && pool.iter().any(|p| uncleared(*p)) {
                        dirty_at = Some(t);
                    }
                }
                if let Some(t) = dirty_at {
                    fails.push(format!("query {k}: after repetition {t} of {c} of ({q0:?}) some reachable node has scratch data (no call in progress)"));
                }
                st.add("repeat_iterations", *c as u64);
                st.bump(if *c >= 65535 { "q_repeat_count>=65535" } else if *c >= 254 { "q_repeat_count_254..257" } else { "q_repeat_count<=3" });
                last
            }
            _ => answer(&b, &pool, q, total),
        };
        // on the builder under test only (never on the fresh copies): after a semantic-hash query the
        // same entry is also asked for its CACHED hash in another field, which fills the per-node
        // hash memo; later hash queries (64-bit field, fold with the weights given) on entries
        // sharing those nodes must not see it
        if let Q::H(i) = q {
            use rsdd::repr::VarOrder;
            let order = VarOrder::new(&prog.pos_to_var().iter().map(|v| VarLabel::new(*v as u64)).chain((prog.nvars..total).map(|v| VarLabel::new(v as u64))).collect::<Vec<_>>());
            let small = create_semantic_hash_map::<{ primes::U32_SMALL }>(total);
            let _ = pool[*i].cached_semantic_hash(&order, &small);
        }
        // every per-node scratch slot is empty again
        let dirty = pool.iter().any(|p| uncleared(*p)) || res.map_or(false, uncleared);
        if dirty {
            fails.push(format!("after query {k} ({q:?}) some reachable node still has scratch data"));
        }
        // same answer as on a freshly built copy
        if defer {
            deferred.push((k, a.clone()));
        } else {
            let b2 = AnyBuilder::new(&prog);
            let pool2 = exec(&b2, &prog, &mut dummy);
            let (a2, _) = answer(&b2, &pool2, q, total);
            if a != a2 {
                fails.push(format!("query {k} ({q:?}) answered {a} after {k} earlier queries but {a2} on a freshly built copy"));
            }
        }
        if let Q::D(cls, lits) = q {
            dnnf_conditions(cls, lits, k, &mut fails);
            semantic_dnnf_queries(cls, k, &mut fails);
            // ... and on further CNFs derived from this one (each clause set rotated / polarities
            // flipped by a counter): the shape needed is rare
            for j in 1..12u64 {
                let nvv = cls.iter().flatten().map(|l| l.0).max().unwrap_or(0) + 1;
                let alt: Vec<Vec<(u64, bool)>> = cls.iter().enumerate().map(|(ci, c)| c.iter().enumerate().map(|(li, (v, p))| ((v + j * (ci as u64 + 1) + (li as u64) * (j / 3)) % nvv, *p ^ (((j >> (li % 3)) & 1) == 1))).collect()).collect();
                semantic_dnnf_queries(&alt, k, &mut fails);
            }
        }
        st.bump(match q { Q::D(..) => "q_dnnf_conditions", Q::W(..) => "q_wmc_real", Q::F(..) => "q_wmc_ff", Q::E(..) => "q_evaluate", Q::N(..) => "q_count_nodes", Q::H(..) => "q_semantic_hash", Q::M(..) => "q_marginal_map", Q::C(..) => "q_condition", Q::S(..) => "q_smooth", Q::R(..) => "q_repeat" });
        // hash / MAP answers are compared with the fresh copy only (the model does not compute them)
        outs.push(match q { Q::H(..) | Q::M(..) | Q::D(..) => "ok".to_string(), _ => a });
    }
    for (k, a) in deferred {
        let b2 = AnyBuilder::new(&prog);
        let pool2 = exec(&b2, &prog, &mut dummy);
        let (a2, _) = answer(&b2, &pool2, &qs[k], total);
        if a != a2 {
            fails.push(format!("query {k} ({:?}) answered {a} after {k} earlier queries but {a2} on a freshly built copy", qs[k]));
        }
    }
    // do distinct pool entries share nodes? (the interesting case for residue)
    let nontrivial = qs.len() >= 3 && pool.iter().filter(|p| matches!(p, BddPtr::Reg(_) | BddPtr::Compl(_))).count() >= 2;
    Outcome { result: outs.join(" ; "), fails, nontrivial }
}
