//! C08: smoothing keeps the function and makes counting exact for any weights.
//! case:  <BDD program> S <pool index> <n> (<w_lo> <w_hi>)*total_vars
//! out:   unfolding of smooth(pool[idx], n)  wmc=<weighted count, integer weights>  mc=<unit-weight count>
//! oracle: same truth table; every path tests levels 0..n-1 exactly once, in order, before
//! anything at a level >= n; for n = all variables: count = brute-force weighted sum over models
//! (arbitrary non-normalised weights) and unit-weight count = number of models.
use rsdd::repr::{BddPtr, DDNNFPtr, VarLabel, WmcParams};
use rsdd::util::semirings::{FiniteField, RealSemiring};
use rsdd_verif_harness::bddprog::*;
use rsdd_verif_harness::*;
use std::collections::HashMap;

pub const PROP: Prop = Prop { gen, run, panic_ok: never };

fn main() {
    run_main(PROP)
}

pub fn gen(rng: &mut Rng, idx: usize, n: usize, thorough: bool) -> String {
    let o = GenOpts { max_vars: if thorough { 8 } else { 6 }, max_ops: if thorough { 30 } else { 16 }, new_vars: true, small_tables: false };
    let p = gen_prog(rng, idx, n, &o);
    let prog = parse(&p);
    let total = prog.total_vars();
    let npool = prog.ops.len();
    // mostly the last entries (largest diagrams), sometimes a literal (skips levels at the top
    // and at the bottom) or a constant
    let target = if rng.chance(3, 4) { npool - 1 - rng.range(0, 1.min(npool - 1)) } else { rng.below(npool as u64) as usize };
    let nsm = if rng.chance(2, 3) { total } else { rng.range(0, total) };
    let mut s = format!("{p} S {target} {nsm}");
    let maxw = *rng.pick(&[1u64, 2, 3, 7, 15]);
    for _ in 0..total {
        s.push_str(&format!(" {} {}", rng.below(maxw + 1), rng.below(maxw + 1)));
    }
    s
}

/// walks every path; returns an error description if a path does not test levels 0..n-1 exactly
/// once in order followed only by strictly increasing levels >= n
fn path_violation(b: &AnyBuilder, p: BddPtr, expect: usize, n: usize, last: Option<usize>) -> Option<String> {
    match p {
        BddPtr::PtrTrue | BddPtr::PtrFalse => {
            if expect < n { Some(format!("a path ends after testing only levels 0..{expect} (n = {n})")) } else { None }
        }
        BddPtr::Reg(node) | BddPtr::Compl(node) => {
            let lv = b.level(node.var.value());
            if expect < n {
                if lv != expect {
                    return Some(format!("a path tests level {lv} (variable {}) where level {expect} is due", node.var.value()));
                }
            } else if lv < n || last.map_or(false, |l| lv <= l) {
                return Some(format!("a path tests level {lv} again or out of order after the smoothed prefix"));
            }
            path_violation(b, node.low, expect + 1, n, Some(lv)).or_else(|| path_violation(b, node.high, expect + 1, n, Some(lv)))
        }
    }
}

pub fn run(case: &str, st: &mut Stats) -> Outcome {
    let prog = parse(case);
    let tail = &prog.rest;
    assert!(tail[0] == "S");
    let target: usize = tail[1].parse().unwrap();
    let nsm: usize = tail[2].parse().unwrap();
    let total = prog.total_vars();
    let w: Vec<(u64, u64)> = (0..total).map(|v| (tail[3 + 2 * v].parse().unwrap(), tail[4 + 2 * v].parse().unwrap())).collect();
    let b = AnyBuilder::new(&prog);
    let mut dummy = Stats::default();
    let mut fails = vec![];
    // histories: if the program extends the order at run time, the diagrams built before the first
    // new variable are smoothed over all variables that exist then (oracle only); the final
    // smoothing below, after the extension, must not be affected by those earlier calls
    if let Some(k) = prog.ops.iter().position(|o| matches!(o, Op::NewVar(_))) {
        if k > 0 {
            let mut pre = prog.clone();
            pre.ops.truncate(k);
            let pp = exec(&b, &pre, &mut dummy);
            let now = prog.nvars;
            for (j, q) in pp.iter().enumerate().rev().take(3) {
                let sq = b.smooth(*q, now);
                if table_of(sq, total) != table_of(*q, total) {
                    fails.push(format!("before the first new variable: smooth(pool[{j}], {now}) denotes a different function than its argument"));
                }
                if let Some(v) = path_violation(&b, sq, 0, now, None) {
                    fails.push(format!("before the first new variable: smooth(pool[{j}], {now}): {v}"));
                }
            }
            st.bump("smoothed_before_order_extension");
        }
    }
    let pool = exec(&b, &prog, &mut dummy);
    let p = pool[target];
    let s = b.smooth(p, nsm);
    let tp = table_of(p, total);
    let ts = table_of(s, total);
    if tp != ts {
        fails.push(format!("smooth(pool[{target}], {nsm}) denotes a different function than its argument"));
    }
    if let Some(v) = path_violation(&b, s, 0, nsm, None) {
        fails.push(format!("smooth(pool[{target}], {nsm}): {v}"));
    }
    // counts: integer weights are exact in f64 (products below 2^53) and in the 64-bit field
    let real: WmcParams<RealSemiring> = WmcParams::new(HashMap::from_iter((0..total).map(|v| (VarLabel::new(v as u64), (RealSemiring(w[v].0 as f64), RealSemiring(w[v].1 as f64))))));
    let ff: WmcParams<FiniteField<{ rsdd::constants::primes::U64_LARGEST }>> =
        WmcParams::new(HashMap::from_iter((0..total).map(|v| (VarLabel::new(v as u64), (FiniteField::new(w[v].0 as u128), FiniteField::new(w[v].1 as u128))))));
    let unit: WmcParams<FiniteField<{ rsdd::constants::primes::U64_LARGEST }>> =
        WmcParams::new(HashMap::from_iter((0..total).map(|v| (VarLabel::new(v as u64), (FiniteField::new(1), FiniteField::new(1))))));
    let wr = s.unsmoothed_wmc(&real).0;
    let wf = s.unsmoothed_wmc(&ff).value();
    let mc = s.unsmoothed_wmc(&unit).value();
    if wr.fract() != 0.0 || wr as u128 != wf {
        fails.push(format!("real count {wr} and finite-field count {wf} of the smoothed diagram differ"));
    }
    if nsm == total {
        let mut brute: u128 = 0;
        let mut models: u128 = 0;
        for a in 0..(1usize << total) {
            if tp[a] {
                models += 1;
                brute += (0..total).map(|v| if (a >> v) & 1 == 1 { w[v].1 as u128 } else { w[v].0 as u128 }).product::<u128>();
            }
        }
        if wf != brute {
            fails.push(format!("weighted count of the smoothed diagram is {wf}, brute-force weighted sum over models is {brute}"));
        }
        if mc != models {
            fails.push(format!("unweighted count of the smoothed diagram is {mc}, the function has {models} models"));
        }
        st.bump("smooth_all_levels");
    } else {
        st.bump("smooth_prefix");
        // a function that only depends on the smoothed prefix: the counts are the brute-force sums
        // over the assignments of those n variables
        let prefix: Vec<usize> = (0..nsm).map(|l| b.var_at_level(l) as usize).collect();
        let rest: Vec<usize> = (nsm..total).map(|l| b.var_at_level(l) as usize).collect();
        let depends_on_rest = rest.iter().any(|v| (0..(1usize << total)).any(|a| tp[a] != tp[a ^ (1 << v)]));
        if !depends_on_rest {
            let (mut models, mut brute) = (0u128, 0u128);
            for m in 0..(1usize << nsm) {
                let mut a = 0usize;
                for (j, v) in prefix.iter().enumerate() { if (m >> j) & 1 == 1 { a |= 1 << v; } }
                if tp[a] {
                    models += 1;
                    brute += prefix.iter().map(|v| if (a >> v) & 1 == 1 { w[*v].1 as u128 } else { w[*v].0 as u128 }).product::<u128>();
                }
            }
            if wf != brute {
                fails.push(format!("smoothed over the first {nsm} variables (the function depends on no other): weighted count {wf}, brute-force weighted sum over those variables {brute}"));
            }
            if mc != models {
                fails.push(format!("smoothed over the first {nsm} variables (the function depends on no other): unweighted count {mc}, the function has {models} models over those variables"));
            }
            st.bump("smooth_prefix_count_checked");
        }
    }
    // which levels does the argument skip?
    let top_level = match p { BddPtr::Reg(n) | BddPtr::Compl(n) => Some(b.level(n.var.value())), _ => None };
    match top_level {
        None => st.bump("arg_constant"),
        Some(0) => st.bump("arg_top_at_level0"),
        Some(_) => st.bump("arg_skips_top_levels"),
    }
    if matches!(p, BddPtr::Compl(_)) {
        st.bump("arg_complemented_root");
    }
    let mut line = String::new();
    unfold(s, &mut line);
    line.push_str(&format!(" wmc={wf} mc={mc}"));
    Outcome { result: line, fails, nontrivial: nsm >= 2 && top_level.is_some() }
}
