//! C06: top-down CNF compilation to decision-DNNF (rsdd::builder::decision_nnf) and conditioning.
//! case:  o <label>* (c <lit>*)*        order = pos_to_var (0-based labels, a permutation of the
//!                                      CNF's variables); lit = signed 1-based label (DIMACS)
//! out:   R <unfold r> S <tt r> ( C<v><b> <unfold cond r> <unfold cond !r> <tt cond r> <tt cond !r> )*
//!        unfold.. = StandardDecisionNNFBuilder (canonical unfolding, compared with the model's tree);
//!        tt..     = SemanticDecisionNNFBuilder<U64_LARGEST> (truth tables only: its shapes depend on
//!                   hash identity, property C11)
//! Oracle (independent of the model and of the library's evaluate/fold): brute-force truth table of
//! the raw clauses vs the diagrams walked node by node; false constant <=> unsatisfiable; no path
//! decides a variable twice; condition = restriction of the truth table for regular and
//! complemented roots; both stores.
use rsdd::builder::decision_nnf::{DecisionNNFBuilder, SemanticDecisionNNFBuilder, StandardDecisionNNFBuilder};
use rsdd::constants::primes;
use rsdd::repr::{BddPtr, Cnf, DDNNFPtr, DecisionResult, Literal, SATSolver, VarLabel, VarOrder};
use rsdd_verif_harness::*;
use std::cell::RefCell;
use std::collections::HashSet;

pub const PROP: Prop = Prop { gen, run, panic_ok: never };

fn main() {
    run_main(PROP)
}

type L = (usize, bool);

fn lit_tok(l: L) -> String {
    if l.1 {
        format!("{}", l.0 + 1)
    } else {
        format!("-{}", l.0 + 1)
    }
}
fn parse_lit(t: &str) -> L {
    let i: i64 = t.parse().unwrap();
    if i > 0 {
        ((i - 1) as usize, true)
    } else {
        ((-i - 1) as usize, false)
    }
}
fn to_lit(l: L) -> Literal {
    Literal::new(VarLabel::new(l.0 as u64), l.1)
}
fn nvars_of(raw: &[Vec<L>]) -> usize {
    raw.iter().flat_map(|c| c.iter().map(|l| l.0 + 1)).max().unwrap_or(0)
}
fn case_string(order: &[usize], raw: &[Vec<L>]) -> String {
    let mut s = String::from("o");
    for v in order {
        s.push_str(&format!(" {v}"));
    }
    for c in raw {
        s.push_str(" c");
        for l in c {
            s.push(' ');
            s.push_str(&lit_tok(*l));
        }
    }
    s
}

// ---------------------------------------------------------------- generators
fn gen_clause_over(rng: &mut Rng, vars: &[usize], len: usize) -> Vec<L> {
    let mut vs = vars.to_vec();
    rng.shuffle(&mut vs);
    vs.truncate(len.min(vars.len()));
    vs.into_iter().map(|v| (v, rng.coin())).collect()
}

/// structured stream: the variables are split along the decision order into a prefix block and a
/// suffix block; most clauses live inside one block, so that different ways of satisfying the
/// prefix clauses leave the same residual formula (the suffix clauses) and the component cache hits
fn gen_structured(rng: &mut Rng, order: &[usize], nc: usize) -> Vec<Vec<L>> {
    let nv = order.len();
    let k = if nv >= 3 { rng.range(1, nv - 2) } else { 1.min(nv) };
    let (pre, suf) = order.split_at(k.min(nv));
    let all: Vec<usize> = order.to_vec();
    let mut cls: Vec<Vec<L>> = vec![];
    let nsuf = if suf.is_empty() { 0 } else { rng.range(1, (nc / 2).max(1)) };
    for _ in 0..nc.saturating_sub(nsuf) {
        let len = *rng.pick(&[2usize, 2, 2, 3, 3, 3, 2, 1]);
        let c = match rng.below(10) {
            0..=5 if pre.len() >= 2 => gen_clause_over(rng, pre, len),
            0..=2 if pre.len() == 1 => { let mut c = gen_clause_over(rng, &all, len.max(2)); c[0].0 = pre[0]; c.dedup_by_key(|l| l.0); c }
            6..=7 => gen_clause_over(rng, &all, len),
            _ => gen_clause_over(rng, &all, len.max(2)),
        };
        cls.push(c);
    }
    for _ in 0..nsuf {
        let len = *rng.pick(&[2usize, 2, 3]);
        cls.push(gen_clause_over(rng, suf, len));
    }
    if rng.chance(1, 3) {
        rng.shuffle(&mut cls);
    }
    cls
}

fn gen_plain(rng: &mut Rng, nv: usize, nc: usize) -> Vec<Vec<L>> {
    let all: Vec<usize> = (0..nv).collect();
    // wide family (a fifth of the formulas with >= 5 variables): a few clauses of 5..nv literals of
    // mixed polarity among binary ones (implications that force a variable of a wide clause)
    let wide = nv >= 5 && rng.chance(1, 5);
    (0..nc)
        .map(|_| {
            let len = if wide { *rng.pick(&[2usize, 2, 5, 6, 7, 8, 5, 2, 3]) } else { *rng.pick(&[2usize, 2, 3, 3, 3, 4, 2, 3, 1]) };
            gen_clause_over(rng, &all, len.min(nv))
        })
        .collect()
}

/// edge stream: empty formula, empty clause, unit clauses (also clashing), duplicate and
/// complementary literals, variables that occur in no clause, duplicated clauses, formulas that
/// are unsatisfiable without unit propagation noticing at the root
fn gen_edge(rng: &mut Rng, nv: usize, nc: usize) -> Vec<Vec<L>> {
    match rng.below(12) {
        0 => return vec![],
        1 => return vec![vec![]],
        2 => {
            // all four clauses over two variables (unsatisfiable, no unit), plus units on others
            let mut cls = vec![vec![(0, true), (1, true)], vec![(0, true), (1, false)], vec![(0, false), (1, true)], vec![(0, false), (1, false)]];
            if rng.coin() {
                cls.push(vec![(2, rng.coin())]);
            }
            if rng.coin() {
                cls.insert(0, vec![(rng.range(2, 3), rng.coin()), (rng.range(0, 1), rng.coin())]);
            }
            return cls;
        }
        _ => {}
    }
    let mut cls = gen_plain(rng, nv.max(1), nc);
    let k = rng.range(1, 3);
    for _ in 0..k {
        match rng.below(7) {
            0 => {
                let i = rng.below(cls.len() as u64) as usize;
                if let Some(&l) = cls[i].first() {
                    let pos = rng.range(0, cls[i].len());
                    cls[i].insert(pos, (l.0, !l.1));
                    if rng.coin() {
                        cls[i].push(l);
                    }
                }
            }
            1 => {
                let i = rng.below(cls.len() as u64) as usize;
                if let Some(&l) = cls[i].first() {
                    cls[i].push(l);
                }
            }
            2 => {
                let u = (rng.below(nv.max(1) as u64) as usize, rng.coin());
                let pos = rng.range(0, cls.len());
                cls.insert(pos, vec![u]);
            }
            3 => {
                if rng.chance(1, 3) {
                    let pos = rng.range(0, cls.len());
                    cls.insert(pos, vec![]);
                }
            }
            4 => {
                // a variable in no clause: shift every label >= v up by one
                let v = rng.below(nv.max(1) as u64) as usize;
                for c in cls.iter_mut() {
                    for l in c.iter_mut() {
                        if l.0 >= v {
                            l.0 += 1;
                        }
                    }
                }
            }
            5 => {
                let i = rng.below(cls.len() as u64) as usize;
                let c = cls[i].clone();
                cls.push(c);
                let v = rng.below(nv.max(1) as u64) as usize;
                cls.push(vec![(v, true), (v, false)]);
            }
            _ => {
                let v = rng.below(nv.max(1) as u64) as usize;
                cls.push(vec![(v, rng.coin())]);
                cls.push(vec![(v, rng.coin())]);
            }
        }
    }
    cls
}

fn all_perms(n: usize) -> Vec<Vec<usize>> {
    fn go(cur: &mut Vec<usize>, used: &mut Vec<bool>, n: usize, out: &mut Vec<Vec<usize>>) {
        if cur.len() == n {
            out.push(cur.clone());
            return;
        }
        for v in 0..n {
            if !used[v] {
                used[v] = true;
                cur.push(v);
                go(cur, used, n, out);
                cur.pop();
                used[v] = false;
            }
        }
    }
    let mut out = vec![];
    go(&mut vec![], &mut vec![false; n], n, &mut out);
    out
}

thread_local! {
    static QUEUE: RefCell<Vec<String>> = RefCell::new(Vec::new());
}

pub fn gen(rng: &mut Rng, idx: usize, n: usize, thorough: bool) -> String {
    if let Some(c) = QUEUE.with(|q| q.borrow_mut().pop()) {
        return c;
    }
    let frac = (idx * 100) / n.max(1);
    let edge = rng.chance(1, 5);
    let maxv = if thorough { 8 } else { 7 };
    let (nv, nc) = if frac < 35 {
        (rng.range(1, 4), rng.range(1, 5))
    } else if frac < 70 {
        (rng.range(3, 5), rng.range(2, 7))
    } else {
        (rng.range(4, maxv), rng.range(3, 10))
    };
    if edge {
        let raw = gen_edge(rng, nv.min(5), nc.min(6));
        let nvr = nvars_of(&raw);
        if nvr <= 3 || (nvr == 4 && rng.chance(1, 8)) {
            let mut all: Vec<String> = all_perms(nvr).iter().map(|p| case_string(p, &raw)).collect();
            let first = all.pop().unwrap();
            QUEUE.with(|q| *q.borrow_mut() = all);
            return first;
        }
        return case_string(&rng.perm(nvr), &raw);
    }
    // shared-literal families: a pivot in both polarities over clauses that share the same other
    // literals pairwise -- the two branches of the pivot remove the same BAG of literal
    // occurrences from DIFFERENT clauses (residual formulas differ; only a hash that weighs
    // occurrences, not literals, tells them apart)
    if frac >= 30 && rng.chance(1, 7) {
        let nvs = rng.range(5, 6.max(maxv.min(7)));
        let vs = rng.perm(nvs);
        let (y, a, b, c, d) = (vs[0], vs[1], vs[2], vs[3], vs[4]);
        let (pa, pb, pc, pd) = (rng.coin(), rng.coin(), rng.coin(), rng.coin());
        let mut raw: Vec<Vec<L>> = vec![
            vec![(y, true), (a, pa), (b, pb)],
            vec![(y, false), (a, pa), (c, pc)],
            vec![(y, true), (c, pc), (d, pd)],
            vec![(y, false), (b, pb), (d, pd)],
        ];
        let all: Vec<usize> = (0..nvs).collect();
        for _ in 0..rng.range(0, 2) {
            let len = 2 + rng.range(0, 1);
            raw.push(gen_clause_over(rng, &all, len));
        }
        rng.shuffle(&mut raw);
        // the pivot is decided first (or second)
        let mut order: Vec<usize> = vs.clone();
        if rng.chance(1, 3) { order.swap(0, 1); }
        let rest: Vec<usize> = (0..nvars_of(&raw)).filter(|v| !order.contains(v)).collect();
        order.extend(rest);
        order.retain(|v| *v < nvars_of(&raw));
        return case_string(&order, &raw);
    }
    // wide family: one to three clauses of 5..8 literals of mixed polarity, plus short clauses that
    // share variables with them (a variable of a wide clause is implied on one branch and open on
    // the other)
    if frac >= 25 && rng.chance(1, 8) {
        let nvw = rng.range(6, 8);
        let all: Vec<usize> = (0..nvw).collect();
        let mut raw: Vec<Vec<L>> = vec![];
        for _ in 0..rng.range(1, 3) {
            let len = rng.range(5, nvw);
            raw.push(gen_clause_over(rng, &all, len));
        }
        for _ in 0..rng.range(1, 4) {
            let w = raw[rng.below(raw.len().min(3) as u64) as usize].clone();
            let shared = *rng.pick(&w);
            let other = *rng.pick(&all);
            let mut c = vec![(shared.0, rng.coin()), (other, rng.coin())];
            if rng.chance(1, 3) { c.push((*rng.pick(&all), rng.coin())); }
            c.dedup_by_key(|l| l.0);
            raw.push(c);
        }
        rng.shuffle(&mut raw);
        let nvr = nvars_of(&raw);
        return case_string(&rng.perm(nvr), &raw);
    }
    let order = rng.perm(nv);
    let raw = if rng.chance(3, 4) { gen_structured(rng, &order, nc) } else { gen_plain(rng, nv, nc) };
    let nvr = nvars_of(&raw);
    if nvr <= 3 || (nvr == 4 && rng.chance(1, 8)) {
        // every decision order of this CNF
        let mut all: Vec<String> = all_perms(nvr).iter().map(|p| case_string(p, &raw)).collect();
        let first = all.pop().unwrap();
        QUEUE.with(|q| *q.borrow_mut() = all);
        return first;
    }
    // the generated order may mention variables beyond the largest label that occurs: redraw
    let order: Vec<usize> = if nvr == nv { order } else { rng.perm(nvr) };
    case_string(&order, &raw)
}

// ---------------------------------------------------------------- observation (own walkers)
fn unfold(p: BddPtr, out: &mut String) {
    match p {
        BddPtr::PtrTrue => out.push('T'),
        BddPtr::PtrFalse => out.push('F'),
        BddPtr::Reg(n) | BddPtr::Compl(n) => {
            if matches!(p, BddPtr::Compl(_)) {
                out.push('!');
            }
            out.push('(');
            out.push_str(&n.var.value().to_string());
            out.push(' ');
            unfold(n.low, out);
            out.push(' ');
            unfold(n.high, out);
            out.push(')');
        }
    }
}
fn eval(p: BddPtr, a: usize) -> bool {
    match p {
        BddPtr::PtrTrue => true,
        BddPtr::PtrFalse => false,
        BddPtr::Reg(n) => {
            if (a >> n.var.value()) & 1 == 1 {
                eval(n.high, a)
            } else {
                eval(n.low, a)
            }
        }
        BddPtr::Compl(n) => {
            !(if (a >> n.var.value()) & 1 == 1 { eval(n.high, a) } else { eval(n.low, a) })
        }
    }
}
fn table(p: BddPtr, nv: usize) -> Vec<bool> {
    (0..1usize << nv).map(|a| eval(p, a)).collect()
}
fn tt_string(t: &[bool]) -> String {
    t.iter().map(|b| if *b { '1' } else { '0' }).collect()
}
/// does some root-to-leaf path decide a variable twice?  (all syntactic paths)
fn repeated_var(p: BddPtr, seen: &mut Vec<u64>) -> Option<u64> {
    match p {
        BddPtr::PtrTrue | BddPtr::PtrFalse => None,
        BddPtr::Reg(n) | BddPtr::Compl(n) => {
            let v = n.var.value();
            if seen.contains(&v) {
                return Some(v);
            }
            seen.push(v);
            let r = repeated_var(n.low, seen).or_else(|| repeated_var(n.high, seen));
            seen.pop();
            r
        }
    }
}
fn count_nodes(p: BddPtr, seen: &mut HashSet<*const u8>) -> usize {
    match p {
        BddPtr::PtrTrue | BddPtr::PtrFalse => 0,
        BddPtr::Reg(n) | BddPtr::Compl(n) => {
            let k = n as *const _ as *const u8;
            if !seen.insert(k) {
                return 0;
            }
            1 + count_nodes(n.low, seen) + count_nodes(n.high, seen)
        }
    }
}

/// shadow of topdown_h's control flow on the public SATSolver API, only to COUNT cache lookups
/// and hits for the evidence (the diagrams never influence the control flow)
fn shadow(sat: &mut SATSolver, nv: usize, order: &[usize], level: usize, cache: &mut HashSet<u128>, lookups: &mut u64, hits: &mut u64) {
    if level >= nv || sat.is_sat() {
        return;
    }
    let v = order[level];
    if sat.is_set(VarLabel::new(v as u64)) {
        return shadow(sat, nv, order, level + 1, cache, lookups, hits);
    }
    let h = sat.cur_hash();
    *lookups += 1;
    if cache.contains(&h) {
        *hits += 1;
        return;
    }
    for pol in [true, false] {
        match sat.decide(to_lit((v, pol))) {
            DecisionResult::UNSAT => {}
            DecisionResult::SAT => sat.pop(),
            DecisionResult::Unknown => {
                shadow(sat, nv, order, level + 1, cache, lookups, hits);
                sat.pop();
            }
        }
    }
    cache.insert(h);
}

fn upd(a: usize, v: usize, b: bool) -> usize {
    if b {
        a | (1 << v)
    } else {
        a & !(1 << v)
    }
}

struct Obs {
    unfold_r: String,
    tt_r: Vec<bool>,
    is_false_const: bool,
    conds: Vec<(usize, bool, String, String, Vec<bool>, Vec<bool>)>,
    nodes: usize,
    alloc: usize,
}

fn observe<'a, B: DecisionNNFBuilder<'a>>(b: &'a B, cnf: &Cnf, nv: usize, spec: &[bool], store: &str, fails: &mut Vec<String>) -> Obs {
    let r = b.compile_cnf_topdown(cnf);
    let tt_r = table(r, nv);
    let unsat = spec.iter().all(|x| !*x);
    let is_false_const = matches!(r, BddPtr::PtrFalse);
    if tt_r != spec {
        let a = (0..spec.len()).find(|a| tt_r[*a] != spec[*a]).unwrap();
        fails.push(format!("{store}: compiled diagram differs from the CNF at assignment {a:b} (diagram {}, CNF {})", tt_r[a], spec[a]));
    }
    if is_false_const != unsat {
        fails.push(format!("{store}: false-constant={is_false_const} but brute-force unsat={unsat}"));
    }
    if let Some(v) = repeated_var(r, &mut vec![]) {
        fails.push(format!("{store}: a path of the compiled diagram decides variable {v} twice"));
    }
    let mut u = String::new();
    unfold(r, &mut u);
    let nr = r.neg();
    let tt_nr: Vec<bool> = tt_r.iter().map(|x| !*x).collect();
    let mut conds = vec![];
    for v in 0..nv {
        for val in [false, true] {
            let cr = b.condition(r, VarLabel::new(v as u64), val);
            let cn = b.condition(nr, VarLabel::new(v as u64), val);
            let (tcr, tcn) = (table(cr, nv), table(cn, nv));
            for a in 0..(1usize << nv) {
                if tcr[a] != tt_r[upd(a, v, val)] {
                    fails.push(format!("{store}: condition(r, x{v}={val}) is not the restriction at assignment {a:b}"));
                    break;
                }
            }
            for a in 0..(1usize << nv) {
                if tcn[a] != tt_nr[upd(a, v, val)] {
                    fails.push(format!("{store}: condition(!r, x{v}={val}) is not the restriction at assignment {a:b}"));
                    break;
                }
            }
            let (mut s1, mut s2) = (String::new(), String::new());
            unfold(cr, &mut s1);
            unfold(cn, &mut s2);
            conds.push((v, val, s1, s2, tcr, tcn));
        }
    }
    // the compiled diagram itself must be untouched by the conditionings (stability)
    if table(r, nv) != tt_r {
        fails.push(format!("{store}: conditioning changed the compiled diagram"));
    }
    let nodes = count_nodes(r, &mut HashSet::new());
    Obs { unfold_r: u, tt_r, is_false_const, conds, nodes, alloc: b.stats().num_nodes_alloc }
}

pub fn run(case: &str, st: &mut Stats) -> Outcome {
    let t = toks(case);
    let mut i = 1; // t[0] == "o"
    let mut order: Vec<usize> = vec![];
    while i < t.len() && t[i] != "c" {
        order.push(t[i].parse().unwrap());
        i += 1;
    }
    let mut raw: Vec<Vec<L>> = vec![];
    while i < t.len() && t[i] == "c" {
        i += 1;
        let mut c = vec![];
        while i < t.len() && t[i] != "c" {
            c.push(parse_lit(t[i]));
            i += 1;
        }
        raw.push(c);
    }
    let nv = nvars_of(&raw);
    assert_eq!(order.len(), nv, "generator: order is a permutation of the CNF's variables");
    let mut fails: Vec<String> = vec![];
    st.bump(&format!("nvars={nv}"));
    st.bump(&format!("nclauses={}", raw.len().min(10)));
    if raw.is_empty() {
        st.bump("empty_formula");
    }
    if raw.iter().any(|c| c.is_empty()) {
        st.bump("has_empty_clause");
    }
    if raw.iter().any(|c| c.len() == 1) {
        st.bump("has_unit_clause");
    }
    if raw.iter().any(|c| c.iter().any(|l| c.contains(&(l.0, !l.1)))) {
        st.bump("has_complementary_literals");
    }
    if raw.iter().any(|c| (0..c.len()).any(|a| (a + 1..c.len()).any(|b| c[a] == c[b]))) {
        st.bump("has_duplicate_literal");
    }
    if (0..nv).any(|v| raw.iter().all(|c| c.iter().all(|l| l.0 != v))) {
        st.bump("has_unused_variable");
    }
    if order.iter().enumerate().all(|(k, v)| k == *v) {
        st.bump("order_linear");
    } else {
        st.bump("order_nonlinear");
    }

    // specification: brute force over the raw clauses
    let spec: Vec<bool> = (0..1usize << nv)
        .map(|a| raw.iter().all(|c| c.iter().any(|l| ((a >> l.0) & 1 == 1) == l.1)))
        .collect();
    let unsat = spec.iter().all(|x| !*x);
    st.bump(if unsat { "cnf_unsat" } else { "cnf_sat" });

    let lits: Vec<Vec<Literal>> = raw.iter().map(|c| c.iter().map(|l| to_lit(*l)).collect()).collect();
    let cnf = Cnf::new(&lits);
    let labels: Vec<VarLabel> = order.iter().map(|v| VarLabel::new(*v as u64)).collect();

    // small unique tables most of the time (growth is exercised), the shipped size sometimes
    let cap = match (case.len() + nv) % 5 {
        0 => None,
        1 => Some(4),
        2 => Some(16),
        _ => Some(256),
    };
    rsdd::verif::TABLE_CAPACITY.with(|c| c.set(cap));
    let std_b = StandardDecisionNNFBuilder::new(VarOrder::new(&labels));
    let o_std = observe(&std_b, &cnf, nv, &spec, "standard", &mut fails);
    let sem_b = SemanticDecisionNNFBuilder::<{ primes::U64_LARGEST }>::new(VarOrder::new(&labels));
    let o_sem = observe(&sem_b, &cnf, nv, &spec, "semantic", &mut fails);
    rsdd::verif::TABLE_CAPACITY.with(|c| c.set(None));

    // evidence: cache lookups / hits (shadow recursion), node counts
    let (mut lookups, mut hits) = (0u64, 0u64);
    if let Some(mut sat) = SATSolver::new(cnf.clone()) {
        shadow(&mut sat, nv, &order, 0, &mut HashSet::new(), &mut lookups, &mut hits);
    } else {
        st.bump("new=None");
    }
    st.add("cache_lookups", lookups);
    st.add("cache_hits", hits);
    if hits > 0 {
        st.bump("cases_with_cache_hit");
    }
    st.add("nodes_standard", o_std.nodes as u64);
    st.add("nodes_semantic", o_sem.nodes as u64);
    st.add("alloc_standard", o_std.alloc as u64);
    st.add("alloc_semantic", o_sem.alloc as u64);
    if o_std.is_false_const {
        st.bump("result_false_constant");
    }
    if o_sem.conds.iter().zip(o_std.conds.iter()).any(|(a, b)| a.2 != b.2 || a.3 != b.3) {
        st.bump("semantic_store_shape_differs_from_standard");
    }

    let mut out = format!("R {} S {}", o_std.unfold_r, tt_string(&o_sem.tt_r));
    for (k, (v, val, s1, s2, _, _)) in o_std.conds.iter().enumerate() {
        let (_, _, _, _, t1, t2) = &o_sem.conds[k];
        out.push_str(&format!(" C{v}{} {s1} {s2} {} {}", if *val { 1 } else { 0 }, tt_string(t1), tt_string(t2)));
    }
    // non-trivial: the compiler had to branch (at least one decision node below the implied chain)
    let nontrivial = lookups > 0;
    Outcome { result: out, fails, nontrivial }
}
