//! C10B: bdd_fold (and decision-DNNF conditioning) are pure w.r.t. the per-node scratch; any
//! interleaving with the other scratch users answers like the pure functions.
//! case:  <BDD program> Q <store> (<query>)*
//!   store r: the queries run on the RobddBuilder's own nodes (no `d` queries);
//!   store s: every pool entry is first copied node by node into ONE StandardDecisionNNFBuilder store
//!            (get_or_insert; the copy has the same unfolding and the same sharing) and all queries run
//!            on the copies -- cond_helper compares pointers, so its argument must live in its own store
//!   b <ty> <i> <neg> <a> <b> <m> <lo> <hi>   BddPtr::bdd_fold with f(var,l,h) = (a*l + b*h + var) mod m,
//!                                            base values low_v = lo, high_v = hi, on pool[i] (negated if neg);
//!                                            result type ty: 0 = u64, 1 = u32, 2 = RealSemiring (the
//!                                            (Option<T>,Option<T>) payload then has the SAME TypeId as
//!                                            the DDNNFCache of the `w` queries)
//!   w <i> <neg> (<lo> <hi>)*total            unsmoothed_wmc, RealSemiring, small integer weights
//!   n <i> <neg>                              count_nodes
//!   d <i> <neg> <var> <val>                  StandardDecisionNNFBuilder::condition on the same diagram
//! out:   one answer per query.  After EVERY query the harness walks every node reachable from every
//! pool entry and from the result and requires is_scratch_cleared(); every answer is compared with
//! (1) the same query on a freshly built copy in new builders and (2) a scratch-free recursion done
//! here on the node structure (hash map keyed by node address and polarity).
use rsdd::builder::decision_nnf::{DecisionNNFBuilder, StandardDecisionNNFBuilder};
use rsdd::builder::TopDownBuilder;
use rsdd::repr::{BddNode, BddPtr, DDNNFPtr, VarLabel, VarOrder, WmcParams};
use rsdd::util::semirings::RealSemiring;
use rsdd_verif_harness::bddprog::*;
use rsdd_verif_harness::*;
use std::collections::{HashMap, HashSet};

pub const PROP: Prop = Prop { gen, run, panic_ok: never };

fn main() {
    run_main(PROP)
}

fn gen_bfold(rng: &mut Rng, ty: u64, i: usize, neg: bool) -> String {
    let m = *rng.pick(&[2u64, 3, 5, 7, 11, 97, 251, 1009]);
    let (lo, hi) = *rng.pick(&[(0u64, 1u64), (2, 3), (1, 0), (1, 1), (0, 0), (5, 9)]);
    format!(" b {ty} {i} {} {} {} {m} {} {}", neg as u8, rng.below(6), rng.below(6), lo % m, hi % m)
}

pub fn gen(rng: &mut Rng, idx: usize, n: usize, thorough: bool) -> String {
    let o = GenOpts { max_vars: if thorough { 7 } else { 5 }, max_ops: if thorough { 30 } else { 14 }, new_vars: false, small_tables: false };
    // every other case from the upper end of the size range
    let idx2 = if idx % 2 == 1 { n - 1 - (idx / 2) % (n / 4 + 1) } else { idx };
    let p = gen_prog(rng, idx2, n, &o);
    let prog = parse(&p);
    let total = prog.total_vars();
    let npool = prog.ops.len();
    let dnnf = rng.coin();
    let mut s = format!("{p} Q {}", if dnnf { "s" } else { "r" });
    let nq = 4 + rng.range(0, if thorough { 14 } else { 8 });
    let pick = |rng: &mut Rng| -> usize {
        // bias towards the largest diagrams and towards entries that share structure
        if rng.chance(2, 3) { npool - 1 - rng.range(0, 2.min(npool - 1)) } else { rng.below(npool as u64) as usize }
    };
    let mut k = 0;
    while k < nq {
        let i = pick(rng);
        let neg = rng.chance(1, 3);
        match rng.below(12) {
            0..=4 => { let ty = rng.below(3); s.push_str(&gen_bfold(rng, ty, i, neg)) }
            5 | 6 => {
                // a burst on one entry and its negation, one result type, different node functions:
                // both sides of the (compl, reg) pairs get filled; stale values would be hit
                let ty = rng.below(3);
                for j in 0..rng.range(2, 3) {
                    s.push_str(&gen_bfold(rng, ty, i, (j % 2 == 1) != neg));
                    k += 1;
                }
                continue;
            }
            7 | 8 => {
                s.push_str(&format!(" w {i} {}", neg as u8));
                for _ in 0..total { s.push_str(&format!(" {} {}", rng.below(5), rng.below(5))); }
                // often followed by a bdd_fold with the same payload TypeId on an entry sharing nodes
                if rng.coin() { let j = pick(rng); let ng = rng.coin(); s.push_str(&gen_bfold(rng, 2, j, ng)); k += 1; }
            }
            9 => s.push_str(&format!(" n {i} {}", neg as u8)),
            _ if !dnnf => { let ty = rng.below(3); s.push_str(&gen_bfold(rng, ty, i, neg)) }
            _ => s.push_str(&format!(" d {i} {} {} {}", neg as u8, rng.below(total as u64), rng.coin() as u8)),
        }
        k += 1;
    }
    s
}

#[derive(Clone, Debug, PartialEq)]
enum Q {
    B { ty: u64, i: usize, neg: bool, a: u64, b: u64, m: u64, lo: u64, hi: u64 },
    W(usize, bool, Vec<(u64, u64)>),
    N(usize, bool),
    D(usize, bool, u64, bool),
}

fn parse_queries(t: &[String], total: usize) -> Vec<Q> {
    let mut i = 2;
    let mut qs = vec![];
    let u = |s: &String| -> u64 { s.parse().unwrap() };
    while i < t.len() {
        match t[i].as_str() {
            "b" => {
                qs.push(Q::B { ty: u(&t[i + 1]), i: u(&t[i + 2]) as usize, neg: t[i + 3] != "0", a: u(&t[i + 4]), b: u(&t[i + 5]), m: u(&t[i + 6]), lo: u(&t[i + 7]), hi: u(&t[i + 8]) });
                i += 9
            }
            "w" => { let w = (0..total).map(|v| (u(&t[i + 3 + 2 * v]), u(&t[i + 4 + 2 * v]))).collect(); qs.push(Q::W(u(&t[i + 1]) as usize, t[i + 2] != "0", w)); i += 3 + 2 * total }
            "n" => { qs.push(Q::N(u(&t[i + 1]) as usize, t[i + 2] != "0")); i += 3 }
            "d" => { qs.push(Q::D(u(&t[i + 1]) as usize, t[i + 2] != "0", u(&t[i + 3]), t[i + 4] != "0")); i += 5 }
            _ => panic!("bad query"),
        }
    }
    qs
}

fn target<'a>(pool: &[BddPtr<'a>], i: usize, neg: bool) -> BddPtr<'a> {
    if neg { pool[i].neg() } else { pool[i] }
}

/// the query on the library
fn answer<'a>(db: &'a StandardDecisionNNFBuilder<'a>, pool: &[BddPtr<'a>], q: &Q, total: usize) -> (String, Option<BddPtr<'a>>) {
    match q {
        Q::B { ty, i, neg, a, b, m, lo, hi } => {
            let p = target(pool, *i, *neg);
            let (a, b, m) = (*a, *b, *m);
            let r: u64 = match ty {
                0 => p.bdd_fold(&|v: VarLabel, l: u64, h: u64| (a * l + b * h + v.value()) % m, *lo, *hi),
                1 => p.bdd_fold(&|v: VarLabel, l: u32, h: u32| ((a as u32 * l + b as u32 * h + v.value() as u32) % m as u32), *lo as u32, *hi as u32) as u64,
                _ => p.bdd_fold(&|v: VarLabel, l: RealSemiring, h: RealSemiring| RealSemiring(((a * (l.0 as u64) + b * (h.0 as u64) + v.value()) % m) as f64), RealSemiring(*lo as f64), RealSemiring(*hi as f64)).0 as u64,
            };
            (format!("{r}"), None)
        }
        Q::W(i, neg, w) => {
            let params: WmcParams<RealSemiring> = WmcParams::new(HashMap::from_iter((0..total).map(|v| (VarLabel::new(v as u64), (RealSemiring(w[v].0 as f64), RealSemiring(w[v].1 as f64))))));
            (format!("{}", target(pool, *i, *neg).unsmoothed_wmc(&params).0 as u128), None)
        }
        Q::N(i, neg) => (format!("{}", target(pool, *i, *neg).count_nodes()), None),
        Q::D(i, neg, v, val) => {
            let r = db.condition(target(pool, *i, *neg), VarLabel::new(*v), *val);
            let mut s = String::new();
            unfold(r, &mut s);
            (s, Some(r))
        }
    }
}

/// scratch-free recursion on the node structure: value of the pointer `p` complemented `c` times
fn plain<'a>(p: BddPtr<'a>, c: bool, f: &dyn Fn(u64, u64, u64) -> u64, lo: u64, hi: u64, memo: &mut HashMap<(usize, bool), u64>) -> u64 {
    match p {
        BddPtr::PtrTrue => if c { lo } else { hi },
        BddPtr::PtrFalse => if c { hi } else { lo },
        BddPtr::Reg(n) | BddPtr::Compl(n) => {
            let c2 = c ^ matches!(p, BddPtr::Compl(_));
            let key = (n as *const _ as usize, c2);
            if let Some(v) = memo.get(&key) {
                return *v;
            }
            let l = plain(n.low, c2, f, lo, hi, memo);
            let h = plain(n.high, c2, f, lo, hi, memo);
            let r = f(n.var.value(), l, h);
            memo.insert(key, r);
            r
        }
    }
}

fn distinct_nodes(p: BddPtr, seen: &mut HashSet<usize>) {
    if let BddPtr::Reg(n) | BddPtr::Compl(n) = p {
        if seen.insert(n as *const _ as usize) {
            distinct_nodes(n.low, seen);
            distinct_nodes(n.high, seen);
        }
    }
}

enum Exp { Val(String), Fine, Bad(String) }

/// what the answer must be, computed without the library's folds
fn expected(pool: &[BddPtr], q: &Q, total: usize, got: Option<BddPtr>) -> Exp {
    match q {
        Q::B { i, neg, a, b, m, lo, hi, .. } => {
            let (a, b, m) = (*a, *b, *m);
            let e = plain(target(pool, *i, *neg), false, &|v, l, h| (a * l + b * h + v) % m, *lo, *hi, &mut HashMap::new());
            Exp::Val(format!("{e}"))
        }
        Q::W(i, neg, w) => {
            let e = plain(target(pool, *i, *neg), false, &|v, l, h| w[v as usize].0 * l + w[v as usize].1 * h, 0, 1, &mut HashMap::new());
            Exp::Val(format!("{e}"))
        }
        Q::N(i, neg) => {
            let mut seen = HashSet::new();
            distinct_nodes(target(pool, *i, *neg), &mut seen);
            Exp::Val(format!("{}", seen.len()))
        }
        Q::D(i, neg, v, val) => {
            let rt = table_of(target(pool, *i, *neg), total);
            let gt = table_of(got.unwrap(), total);
            let upd = |x: usize| if *val { x | (1 << v) } else { x & !(1 << v) };
            if (0..(1usize << total)).any(|x| gt[x] != rt[upd(x)]) { Exp::Bad("the result of the decision-DNNF conditioning is not the restriction of the function".to_string()) } else { Exp::Fine }
        }
    }
}

fn uncleared(p: BddPtr) -> bool {
    match p {
        BddPtr::Reg(n) | BddPtr::Compl(n) => !p.is_scratch_cleared() || uncleared(n.low) || uncleared(n.high),
        _ => false,
    }
}

/// structural copy of a diagram into the decision-DNNF builder's store (one unique table)
fn copy_into<'a>(db: &'a StandardDecisionNNFBuilder<'a>, p: BddPtr<'a>, memo: &mut HashMap<usize, BddPtr<'a>>) -> BddPtr<'a> {
    match p {
        BddPtr::PtrTrue | BddPtr::PtrFalse => p,
        BddPtr::Reg(n) | BddPtr::Compl(n) => {
            let key = n as *const _ as usize;
            let r = match memo.get(&key) {
                Some(r) => *r,
                None => {
                    let l = copy_into(db, n.low, memo);
                    let h = copy_into(db, n.high, memo);
                    let r = db.get_or_insert(BddNode::new(n.var, l, h));
                    memo.insert(key, r);
                    r
                }
            };
            if matches!(p, BddPtr::Compl(_)) { r.neg() } else { r }
        }
    }
}

/// the pool the queries run on: the builder's own nodes, or their copies in the decision-DNNF store
fn select_pool<'a>(db: &'a StandardDecisionNNFBuilder<'a>, pool: &[BddPtr<'a>], dnnf: bool) -> Vec<BddPtr<'a>> {
    if !dnnf {
        return pool.to_vec();
    }
    let mut memo = HashMap::new();
    pool.iter().map(|p| {
        let c = copy_into(db, *p, &mut memo);
        let (mut a, mut b) = (String::new(), String::new());
        unfold(*p, &mut a);
        unfold(c, &mut b);
        assert_eq!(a, b, "harness: the copy into the decision-DNNF store changed the unfolding");
        c
    }).collect()
}

fn new_db<'a>(total: usize) -> StandardDecisionNNFBuilder<'a> {
    rsdd::verif::TABLE_CAPACITY.with(|c| c.set(Some(16)));
    let db = StandardDecisionNNFBuilder::new(VarOrder::linear_order(total.max(1)));
    rsdd::verif::TABLE_CAPACITY.with(|c| c.set(None));
    db
}

pub fn run(case: &str, st: &mut Stats) -> Outcome {
    let prog = parse(case);
    let total = prog.total_vars();
    let qs = parse_queries(&prog.rest, total);
    let b = AnyBuilder::new(&prog);
    let mut dummy = Stats::default();
    let rpool = exec(&b, &prog, &mut dummy);
    let dnnf = prog.rest.get(1).map_or(false, |x| x == "s");
    let db = new_db(total);
    let pool = select_pool(&db, &rpool, dnnf);
    st.bump(if dnnf { "store_decision_dnnf" } else { "store_robdd" });
    let mut fails = vec![];
    let mut outs = vec![];
    let mut prev: Option<&Q> = None;
    for (k, q) in qs.iter().enumerate() {
        let (a, res) = answer(&db, &pool, q, total);
        // every per-node scratch slot is empty again
        if pool.iter().any(|p| uncleared(*p)) || res.map_or(false, uncleared) {
            fails.push(format!("after query {k} ({q:?}) some reachable node still has scratch data"));
        }
        // same answer as on a freshly built copy
        {
            let b2 = AnyBuilder::new(&prog);
            let rpool2 = exec(&b2, &prog, &mut dummy);
            let db2 = new_db(total);
            let pool2 = select_pool(&db2, &rpool2, dnnf);
            let (a2, _) = answer(&db2, &pool2, q, total);
            if a != a2 {
                fails.push(format!("query {k} ({q:?}) answered {a} after {k} earlier queries but {a2} on a freshly built copy"));
            }
        }
        // same answer as the scratch-free recursion
        match expected(&pool, q, total, res) {
            Exp::Bad(e) => fails.push(format!("query {k} ({q:?}): {e}")),
            Exp::Val(e) if e != a => fails.push(format!("query {k} ({q:?}) answered {a}; the scratch-free recursion gives {e}")),
            _ => {}
        }
        st.bump(match q { Q::B { ty: 0, .. } => "q_bdd_fold_u64", Q::B { ty: 1, .. } => "q_bdd_fold_u32", Q::B { .. } => "q_bdd_fold_real", Q::W(..) => "q_wmc_real", Q::N(..) => "q_count_nodes", Q::D(..) => "q_dnnf_condition" });
        if let (Some(Q::B { ty: t0, i: i0, neg: n0, .. }), Q::B { ty, i, neg, .. }) = (prev, q) {
            if t0 == ty { st.bump("bdd_fold_after_bdd_fold_same_type"); }
            if i0 == i && n0 != neg { st.bump("bdd_fold_then_its_negation"); }
        }
        if let (Some(Q::W(..)), Q::B { ty: 2, .. }) | (Some(Q::B { ty: 2, .. }), Q::W(..)) = (prev, q) { st.bump("wmc_and_bdd_fold_same_typeid_adjacent"); }
        match q { Q::B { neg: true, .. } | Q::W(_, true, _) | Q::N(_, true) | Q::D(_, true, ..) => st.bump("negated_root"), _ => {} }
        prev = Some(q);
        outs.push(a);
    }
    // distinct bdd_fold parameterisations on non-constant entries
    let is_node = |i: usize, neg: bool| matches!(target(&pool, i, neg), BddPtr::Reg(_) | BddPtr::Compl(_));
    let mut kinds: Vec<(u64, u64, u64, u64, u64)> = qs.iter().filter_map(|q| match q { Q::B { i, neg, a, b, m, lo, hi, .. } if is_node(*i, *neg) => Some((*a, *b, *m, *lo, *hi)), _ => None }).collect();
    kinds.sort();
    kinds.dedup();
    let nontrivial = qs.len() >= 3 && kinds.len() >= 2 && pool.iter().filter(|p| matches!(p, BddPtr::Reg(_) | BddPtr::Compl(_))).count() >= 2;
    Outcome { result: outs.join(" ; "), fails, nontrivial }
}
