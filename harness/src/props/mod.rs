use crate::util::*;
pub mod c16;

pub struct Prop {
    pub gen: fn(&mut Rng, usize, usize, bool) -> String,
    pub run: fn(&str, &mut Stats) -> Outcome,
    /// is a panic on this case acceptable (documented guard), i.e. not a violation?
    pub panic_ok: fn(&str) -> bool,
}

pub fn never(_: &str) -> bool {
    false
}

pub fn lookup(name: &str) -> Option<Prop> {
    match name {
        "C16" => Some(Prop { gen: c16::gen, run: c16::run, panic_ok: never }),
        _ => None,
    }
}
